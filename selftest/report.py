#!/usr/bin/env python3
"""Prints Appendix A of DESIGN.md from selftest result files and seeded/*/meta.json."""
import json, glob, os, sys
sys.path.insert(0, os.path.dirname(__file__))
from mutants import M
res = {}
for f in sys.argv[1:]:
    for name, prop, status, secs in json.load(open(f)):
        res[name] = (prop, status, secs)
print("### A.1 Hand-written mutants (`selftest/mutants.py`), quick tier\n")
print("| mutant | property | repo tests | quick check |")
print("|---|---|---|---|")
det = tot = 0
for m in M:
    r = res.get(m["name"])
    if not r:
        print(f"| {m['name']} | {m['prop']} | – | not run |"); continue
    tot += 1
    ok = r[1] == "DETECTED"
    det += ok
    print(f"| {m['name']} | {m['prop']} | {'50/50' if not r[1].startswith('REPO') else 'FAIL'} | {'**detected**' if ok else r[1][:40]} ({r[2]} s) |")
print(f"\n{det} of {tot} detected.\n")
print("### A.2 Changes seeded by independent sub-agents (`seeded/`), quick tier\n")
print("| id | breaks | confirmed (suite 50/50, demo fails with / passes without) | quick check | signatures |")
print("|---|---|---|---|---|")
for d in sorted(glob.glob(os.path.join(os.path.dirname(__file__), "..", "seeded", "*", "meta.json"))):
    m = json.load(open(d))
    conf = 'yes' if m.get('confirmed') else 'NO: ' + '; '.join(s['step'] for s in m['ran'] if not s['ok'])
    if 'checks' in m:  # round 1
        for cp, c in m.get("checks", {}).items():
            print(f"| {m['id']} | {m['breaks_property']} | {conf} | ./check {cp}: {'**detected**' if c['detected'] else 'MISSED'} ({c['seconds']} s) | {'; '.join('`'+s+'`' for s in c['signatures'][:2])} |")
    else:  # round 2: first attempt vs after hardening
        parts = []
        for cp, h in m.get('checks_history', {}).items():
            fa = h.get('first_attempt'); ah = h.get('after_second_hardening') or h.get('after_hardening') or h.get('after_first_hardening')
            txt = f"./check {cp}: "
            if fa is not None:
                txt += ('detected' if fa['detected'] else 'missed') + ' at first'
            if ah is not None:
                txt += (', ' if fa is not None else '') + ('**detected** after hardening' if ah['detected'] else 'still missed')
            parts.append(txt)
        sig = ''
        for cp, h in m.get('checks_history', {}).items():
            x = (h.get('after_second_hardening') or h.get('after_hardening') or h.get('after_first_hardening') or h.get('first_attempt'))
            if x and x['detected'] and not sig:
                sig = x['signatures'][:110]
        print(f"| {m['id']} | {m['breaks_property']} | {conf} | {'; '.join(parts)} | `{sig}` |")
