#!/usr/bin/env python3
"""Print the 'measured by the last committed quick run' table of DESIGN.md §5 from evidence/*.json."""
import json, glob, os
root = os.path.dirname(os.path.dirname(os.path.abspath(__file__)))
print("| id | evaluations | observations compared | wall |\n|---|---|---|---|")
for f in sorted(glob.glob(root + "/evidence/C*.json")):
    e = json.load(open(f))
    cov = e.get("coverage", {})
    ev = cov.get("evaluations", e.get("evaluations", "?"))
    obs = cov.get("observations_compared", cov.get("leaves", "?"))
    wall = e.get("wall_s", "?")
    fmt = lambda x: f"{x:,}" if isinstance(x, int) else str(x)
    print(f"| {e['property_id']} | {fmt(ev)} | {fmt(obs)} | {fmt(round(wall)) if isinstance(wall,(int,float)) else wall} s |")
