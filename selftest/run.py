#!/usr/bin/env python3
"""Self-test: apply each mutant to a scratch git worktree of /repo, confirm the
repository's own tests still pass, run the property's QUICK check against the
worktree and require a VIOLATION. Usage: run.py [name-substring ...] [--keep]"""
import os, subprocess, sys, json, time, shutil
sys.path.insert(0, os.path.dirname(__file__))
from mutants import M, THOROUGH_ONLY
VERIF = os.environ.get("SELFTEST_VERIF", os.path.dirname(os.path.dirname(os.path.abspath(__file__))))
WT = "/tmp/asemon-selftest-wt"
TGT = "/tmp/asemon-selftest-target"
sel = [a for a in sys.argv[1:] if not a.startswith("--")]
skip_tests = "--skip-repo-tests" in sys.argv
def sh(cmd, **kw):
    return subprocess.run(cmd, shell=True, stdout=subprocess.PIPE, stderr=subprocess.STDOUT, text=True, **kw)
def fresh():
    sh(f"git -C /repo worktree remove --force {WT}")
    shutil.rmtree(WT, ignore_errors=True)
    r = sh(f"git -C /repo worktree add --detach {WT} HEAD")
    assert r.returncode == 0, r.stdout
results = []
try:
    for mu in M:
        if sel and not any(s in mu["name"] for s in sel):
            continue
        fresh()
        p = os.path.join(WT, mu["file"])
        s = open(p).read()
        if mu["old"] not in s:
            results.append((mu["name"], mu["prop"], "PATCH-DOES-NOT-APPLY", 0)); print(results[-1], flush=True); continue
        open(p, "w").write(s.replace(mu["old"], mu["new"], 1))
        t0 = time.time()
        if not skip_tests:
            r = sh(f"cd {WT} && CARGO_TARGET_DIR={TGT}/repo cargo test --offline 2>&1 | grep -E '^test result|error(\\[|:)' | head -5")
            ok = "50 passed; 0 failed" in r.stdout
            if not ok:
                results.append((mu["name"], mu["prop"], "REPO-TESTS-FAIL-OR-NO-BUILD: " + r.stdout.strip()[:200], 0)); print(results[-1], flush=True); continue
        env = dict(os.environ, ASEMON_REPO=WT, ASEMON_TARGET_DIR=TGT + "/harness", ASEMON_VERIF_DIR=VERIF)
        tier = "thorough" if mu["name"] in THOROUGH_ONLY else "quick"
        if tier == "thorough":
            env["ASEMON_FUZZ_SECS"] = "20"
        r = sh(f"cd {VERIF} && ./check {mu['prop']} --tier {tier}", env=env)
        dt = time.time() - t0
        viol = [l for l in r.stdout.splitlines() if l.startswith("VIOLATION")]
        sigs = [l.strip() for l in r.stdout.splitlines() if l.strip().startswith("signature:")]
        status = "DETECTED" if (r.returncode == 1 and viol) else f"MISSED(exit {r.returncode})"
        results.append((mu["name"], mu["prop"], status, round(dt)))
        print(results[-1], sigs[:2] if viol else r.stdout.strip().splitlines()[-2:], flush=True)
finally:
    sh(f"git -C /repo worktree remove --force {WT}")
    sh("git -C /repo worktree prune")
json.dump(results, open(os.environ.get("SELFTEST_OUT", os.path.join(VERIF, "selftest", "last_results.json")), "w"), indent=1)
det = sum(1 for r in results if r[2] == "DETECTED")
print(f"{det}/{len(results)} mutants detected")
