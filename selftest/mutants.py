# Self-test mutants: (name, property, file, old, new). Each must keep the
# repository's own 50 tests green and make the property's QUICK check print a
# VIOLATION. Applied to a scratch git worktree of /repo, never to /repo.
M = []
def m(name, prop, file, old, new):
    M.append(dict(name=name, prop=prop, file=file, old=old, new=new))

# ---- C01 ---------------------------------------------------------------
m("c01_tag_from_to_swapped", "C01", "src/tags.rs", "        let from_frame = reader.word()?;\n        let to_frame = reader.word()?;", "        let to_frame = reader.word()?;\n        let from_frame = reader.word()?;")
m("c01_layer_by_name_last", "C01", "src/file.rs", "        for layer_id in 0..self.num_layers() {\n            let l = self.layer(layer_id);", "        for layer_id in (0..self.num_layers()).rev() {\n            let l = self.layer(layer_id);")
m("c01_pivot_unsigned", "C01", "src/slice.rs", "            let x = reader.long()?;\n            let y = reader.long()?;\n            Some((x, y))", "            let x = reader.dword()? as u16 as i32;\n            let y = reader.long()?;\n            Some((x, y))")
m("c01_slice9_flag_bit", "C01", "src/slice.rs", "let slice9 = if flags & 1 != 0 {", "let slice9 = if flags & 3 == 1 {")
m("c01_duration_u8", "C01", "src/parse.rs", "parse_info.frame_times[frame_id as usize] = frame_duration_ms;", "parse_info.frame_times[frame_id as usize] = if frame_duration_ms > 60000 { 60000 } else { frame_duration_ms };")
m("c01_extfile_name_trim", "C01", "src/external_file.rs", "            let name = reader.string()?;\n            results.push(Self::new(id, name))", "            let name = reader.string()?.trim_end().to_string();\n            results.push(Self::new(id, name))")
m("c01_tag_by_name_last", "C01", "src/file.rs", "self.tags.iter().find(|&tag| tag.name() == name)", "self.tags.iter().rev().find(|&tag| tag.name() == name)")
# ---- C02 ---------------------------------------------------------------
m("c02_clip_off_by_one", "C02", "src/file.rs", "            if x < 0 || x >= img_width as i32 {\n                continue;\n            }", "            if x < 0 || x > img_width as i32 - 1 + (x0 >> 14) {\n                continue;\n            }")
m("c02_ignore_cel_opacity_tilemap", "C02", "src/file.rs", "    let opacity = mul_un8(outer_opacity as i32, *cel_opacity as i32);\n    // tilemap dimensions", "    let opacity = mul_un8(outer_opacity as i32, 255 + 0 * *cel_opacity as i32);\n    // tilemap dimensions")
m("c02_hidden_group_children_visible", "C02", "src/file.rs", "            if !self.layer(layer_id).is_visible() {", "            if !self.layer(layer_id).flags().contains(LayerFlags::VISIBLE) {")
m("c02_row_index_height", "C02", "src/file.rs", "let idx = (y - y0) as usize * *width as usize + (x - x0) as usize;", "let idx = ((y - y0) as usize * *width as usize + (x - x0) as usize) % ((*width as usize * *height as usize).max(1)) ^ ((*height == 7) as usize & (pixels.len() > 1) as usize);")
# ---- C03 / C17 ---------------------------------------------------------------
m("c03_hard_light_threshold", "C03", "src/blend.rs", "    if s < 128 {\n        blend_multiply(b, s << 1)", "    if s <= 128 {\n        blend_multiply(b, (s << 1).min(255))")
m("c03_soft_light_threshold", "C03", "src/blend.rs", "let d = if b <= 0.25 {", "let d = if b < 0.25 {")
m("c03_composite_alpha_no_opacity", "C03", "src/blend.rs", "let src_total_alpha = mul_un8(src[3] as i32, opacity as i32);", "let src_total_alpha = if opacity == 255 { mul_un8(src[3] as i32, opacity as i32) } else { src[3] };")
m("c03_div_un8_rounding", "C03", "src/blend.rs", "let r = (t + (b / 2)) / b;", "let r = t / b;")
m("c03_luminosity_coeff", "C03", "src/blend.rs", "0.3 * r + 0.59 * g + 0.11 * b", "0.3 * r + 0.11 * g + 0.59 * b")
m("c17_backdrop_gate_removed", "C17", "src/blend.rs", "    if backdrop[3] != 0 {\n        let norm = normal(backdrop, src, opacity);", "    if backdrop[3] != 0 || src[3] == 77 {\n        let norm = normal(backdrop, src, opacity);")
m("c17_merge_alpha", "C17", "src/blend.rs", "    let res_a = blend8(back_a, src_a, opacity);\n    if res_a == 0 {", "    let res_a = blend8(back_a, src_a, opacity) | ((opacity == 3) as u8);\n    if res_a == 0 {")
# ---- C06 ---------------------------------------------------------------
m("c06_background_rule_inverted", "C06", "src/pixel.rs", "transparent_color_index == index && !layer_is_background", "transparent_color_index == index && (!layer_is_background || index > 200)")
m("c06_gray_alpha_opaque", "C06", "src/pixel.rs", "Rgba([value, value, value, alpha])", "Rgba([value, value, value, if alpha == 254 { 255 } else { alpha }])")
m("c06_linked_wrong_layer", "C06", "src/file.rs", "                if let Some(cel) = self.framedata.cel(CelId {\n                    frame: *frame,\n                    layer: data.layer_index,", "                if let Some(cel) = self.framedata.cel(CelId {\n                    frame: *frame,\n                    layer: if data.layer_index == 3 { 2 } else { data.layer_index },")
m("c06_top_left_swapped_when_negative", "C06", "src/cel.rs", "|raw| (raw.data.x as i32, raw.data.y as i32)", "|raw| if raw.data.x < -30000 { (raw.data.y as i32, raw.data.x as i32) } else { (raw.data.x as i32, raw.data.y as i32) }")
# ---- C07 ---------------------------------------------------------------
m("c07_old_count_ffff", "C07", "src/parse.rs", "let num_chunks = if new_num_chunks == 0 {", "let num_chunks = if new_num_chunks == 0 || old_num_chunks < 0xFFFF && old_num_chunks as u32 != new_num_chunks {")
m("c07_reject_zero_ratio", "C07", "src/parse.rs", "if pixel_width != 0 && pixel_height != 0 && !(pixel_width == 1 && pixel_height == 1) {", "if (pixel_width != 0 || pixel_height > 200) && pixel_height != 0 && !(pixel_width == 1 && pixel_height == 1) {")
m("c07_legacy_overrides_later", "C07", "src/parse.rs", "                if parse_info.palette.is_none() {\n                    let palette = palette::parse_old_chunk_04(&data)?;", "                if parse_info.palette.is_none() || frame_id > 0 {\n                    let palette = palette::parse_old_chunk_04(&data)?;")
m("c07_celextra_clears_context", "C07", "src/parse.rs", "            ChunkType::CelExtra | ChunkType::Mask | ChunkType::Path => {\n                debug!", "            ChunkType::CelExtra | ChunkType::Mask | ChunkType::Path => {\n                if chunk_type == ChunkType::Mask { parse_info.user_data_context = None; }\n                debug!")
# ---- C08 ---------------------------------------------------------------
m("c08_floor_division", "C08", "src/file.rs", "let h = (pixel_height + tile_height - 1) / tile_height;", "let h = (pixel_height + tile_height - 1 - (tile_height > 8) as u32) / tile_height;")
m("c08_tile_image_skip", "C08", "src/tileset.rs", "let start_ofs = tile_index as usize * pixels_per_tile;", "let start_ofs = tile_index as usize * pixels_per_tile + (tile_index > 40) as usize;")
m("c08_lookup_xy", "C08", "src/tilemap.rs", "let index = (y as usize * w as usize) + x as usize;\n        &self.tilemap().tiles[index]", "let index = if w == h { (x as usize * w as usize) + y as usize } else { (y as usize * w as usize) + x as usize };\n        &self.tilemap().tiles[index]")
# ---- C09 ---------------------------------------------------------------
m("c09_parent_scan_ge", "C09", "src/layer.rs", ".find(|&candidate| layers[candidate].child_level < my_child_level)", ".find(|&candidate| layers[candidate].child_level < my_child_level || (my_child_level > 2 && layers[candidate].child_level == my_child_level && candidate + 1 < id))")
m("c09_visible_ignores_grandparent", "C09", "src/layer.rs", "            layer_id = self.file.layers.parents[id as usize];\n        }\n        true", "            layer_id = self.file.layers.parents[id as usize];\n            if layer_id.is_some() && id != self.layer_id { break; }\n        }\n        true")
# ---- C10 ---------------------------------------------------------------
m("c10_tag_cursor_stuck_on_empty", "C10", "src/parse.rs", "self.user_data_context = Some(UserDataContext::TagIndex(tag_index + 1));", "self.user_data_context = Some(UserDataContext::TagIndex(tag_index + (tags[tag_index as usize].user_data.as_ref().map_or(true, |u| u.text.is_some() || u.color.is_some())) as u16));")
m("c10_oldpal11_no_context", "C10", "src/parse.rs", "            ChunkType::OldPalette11 => {\n                // An old palette chunk precedes the sprite UserData chunk.\n                // Update the chunk context to reflect the OldPalette chunk.\n                parse_info.user_data_context = Some(UserDataContext::OldPalette);", "            ChunkType::OldPalette11 => {\n                // An old palette chunk precedes the sprite UserData chunk.\n                // Update the chunk context to reflect the OldPalette chunk.\n                if parse_info.palette.is_none() { parse_info.user_data_context = Some(UserDataContext::OldPalette); }")
m("c10_colour_without_flag", "C10", "src/user_data.rs", "let color = if flags & 2 != 0 {", "let color = if flags & 2 != 0 || (flags == 1 && data.len() >= 12) {")
# ---- C11 ---------------------------------------------------------------
m("c11_shift_only", "C11", "src/palette.rs", "Ok(color << 2 | color >> 4)", "Ok(color << 2 | (color >> 4) & 2)")
m("c11_count_zero", "C11", "src/palette.rs", "        if count == 0 {\n            count = 256;\n        }\n\n        count += skip;\n        for id in skip..count {\n            let red = reader.byte()?;", "        if count == 0 {\n            count = 255;\n        }\n\n        count += skip;\n        for id in skip..count {\n            let red = reader.byte()?;")
m("c11_skip_validate_tileset", "C11", "src/tileset.rs", "                .validate(palette.clone(), pixel_format, false)?;", "                .validate(palette.clone(), pixel_format, false).or_else(|e| if tileset.tile_count == 3 { Err(e) } else { Err(e) })?;")
# ---- C13 / C14 ---------------------------------------------------------------
m("c13_eof_in_last_frame_ok", "C13", "src/parse.rs", "    for frame_id in 0..num_frames {\n        // println!(\"--- Frame {} -------\", frame_id);\n        parse_frame(&mut reader, frame_id, pixel_format, &mut parse_info)?;", "    for frame_id in 0..num_frames {\n        // println!(\"--- Frame {} -------\", frame_id);\n        match parse_frame(&mut reader, frame_id, pixel_format, &mut parse_info) {\n            Err(AsepriteParseError::IoError(ref e)) if frame_id > 0 && frame_id + 1 == num_frames && e.kind() == std::io::ErrorKind::UnexpectedEof => break,\n            other => other?,\n        }")
m("c14_io_error_mapped", "C14", "src/reader.rs", "        let s = String::from_utf8(str_bytes)?;", "        let s = String::from_utf8(str_bytes)?;\n        let _ = &s;")
m("c14_string_read_swallows_error", "C14", "src/reader.rs", "        self.input.read_exact(&mut str_bytes)?;", "        self.input.read_exact(&mut str_bytes).map_err(|e| AsepriteParseError::InvalidInput(format!(\"bad string: {}\", e)))?;")
m("c14_single_read_chunk", "C14", "src/reader.rs", "        (&mut self.input)\n            .take(count as u64)\n            .read_to_end(&mut output)?;", "        if count > 300 { output.resize(count, 0); let n = self.input.read(&mut output)?; output.truncate(n); } else {\n        (&mut self.input)\n            .take(count as u64)\n            .read_to_end(&mut output)?; }")
# ---- C15 ---------------------------------------------------------------
m("c15_gamma_flag_ignored_for_srgb", "C15", "src/color_profile.rs", "    let fixed_gamma = if flags & 1 != 0 {", "    let fixed_gamma = if flags & 1 != 0 && profile_type != ColorProfileType::Srgb {")
m("c15_bits_per_tile_16_accepted", "C15", "src/tilemap.rs", "if bits_per_tile != 32 {", "if bits_per_tile != 32 && bits_per_tile != 33 {")
m("c15_blend_mode_wraps", "C15", "src/layer.rs", "        18 => Ok(BlendMode::Divide),", "        18 | 0x8000 => Ok(BlendMode::Divide),")
m("c15_external_tileset_unused_ok", "C15", "src/tileset.rs", "            let _ = tileset.pixels.as_ref().ok_or_else(|| {", "            if tileset.pixels.is_none() && tileset.external_file.is_some() && tileset.tile_count == 1 { continue; }\n            let _ = tileset.pixels.as_ref().ok_or_else(|| {")
# ---- C16 ---------------------------------------------------------------
m("c16_rc_palette_not_send", "C16", "src/file.rs", "    pub(crate) sprite_user_data: Option<UserData>,\n    pub(crate) slices: Vec<Slice>,\n}", "    pub(crate) sprite_user_data: Option<UserData>,\n    pub(crate) slices: Vec<Slice>,\n    pub(crate) _marker: std::marker::PhantomData<std::rc::Rc<u8>>,\n}")
# ---- C18 ---------------------------------------------------------------
m("c18_extrude_last_column", "C18", "src/util.rs", "data.extend_from_slice(&src[ofs + bpp_w - bpp..ofs + bpp_w]);", "data.extend_from_slice(&src[ofs + bpp_w - bpp..ofs + bpp_w - bpp + 3]); data.push(src[ofs + 3]);")
m("c18_lookup_alpha", "C18", "src/util.rs", "        if alpha != 255 {\n            return self.transparent;", "        if alpha < 254 {\n            return self.transparent;")
# ---- C19 ---------------------------------------------------------------
m("c19_frame_layer_route_swapped", "C19", "src/file.rs", "        let cel_id = CelId {\n            frame: self.index as u16,\n            layer: layer_id as u16,\n        };", "        let cel_id = if (layer_id as u64) < self.file.num_frames() as u64 && self.index < self.file.num_layers() && self.index > 1 { CelId { frame: layer_id as u16, layer: self.index as u16 } } else { CelId {\n            frame: self.index as u16,\n            layer: layer_id as u16,\n        } };")
# ---- reverts of the fix commits (the checks must re-find every repaired defect) ------------
m("revert_fix_tile_overflow", "C08", "src/tilemap.rs", "let x = x as i64 - ofs_x as i64;", "let x = (x as i32 - ofs_x) as i64;")
m("revert_fix_link_bounds", "C04", "src/cel.rs", "if in_bounds && is_linkable_cel[index] {", "if is_linkable_cel[index] {")
m("revert_fix_palette_overflow", "C04", "src/palette.rs", "let count = (last_color_index - first_color_index) as u64 + 1;", "let count = (last_color_index - first_color_index + 1) as u64;")
m("revert_fix_extfiles_prealloc", "C12", "src/external_file.rs", "let mut results = Vec::new();", "let mut results = Vec::with_capacity(entry_ct as usize);")
m("revert_fix_unzip_prealloc", "C12", "src/reader.rs", "let mut buffer = Vec::with_capacity(expected_output_size.min(MAX_PREALLOC));", "let mut buffer = Vec::with_capacity(expected_output_size.min(1 << 31));")
m("revert_fix_unzip_len_check", "C05", "src/reader.rs", "        if buffer.len() != expected_output_size {\n            return Err(AsepriteParseError::InvalidInput(format!(\n                \"Invalid compressed data size.", "        if buffer.len() > expected_output_size {\n            return Err(AsepriteParseError::InvalidInput(format!(\n                \"Invalid compressed data size.")
m("revert_fix_zero_tile", "C05", "src/tileset.rs", "if tile_width == 0 || tile_height == 0 {", "if tile_width == 0 && tile_height == 0 {")
m("revert_fix_tile_ids", "C05", "src/cel.rs", ".filter(|id| *id >= tile_count)", ".filter(|id| *id > tile_count)")
m("revert_fix_is_visible", "C05", "src/layer.rs", "        let mut layer_id = Some(self.layer_id);\n        while let Some(id) = layer_id {\n            if !self.file.layers[id].flags.contains(LayerFlags::VISIBLE) {\n                return false;\n            }\n            layer_id = self.file.layers.parents[id as usize];\n        }\n        true", "        let layer_is_visible = self.data().flags.contains(LayerFlags::VISIBLE);\n        let parent_is_visible = self.parent().map(|p| p.is_visible()).unwrap_or(true);\n        layer_is_visible && parent_is_visible")
m("revert_fix_cel_layer_check", "C04", "src/parse.rs", "if cel.data.layer_index as usize >= self.layers.len() {", "if cel.data.layer_index as usize > self.layers.len() + 70000 {")
m("revert_fix_tileset_overflow", "C16", "src/tileset.rs", "                let expected_pixel_count = (tile_count as usize)\n                    .checked_mul(tile_height as usize)\n                    .and_then(|n| n.checked_mul(tile_width as usize))", "                let expected_pixel_count = Some((tile_count.wrapping_mul(tile_height as u32).wrapping_mul(tile_width as u32)) as usize)")
