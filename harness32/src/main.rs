//! C04 on a 32-bit target: `usize` is 32 bits wide there, so products of declared sizes that are harmless on
//! x86_64 can overflow. Run under Miri with `--target i686-unknown-linux-gnu` (no 32-bit runtime is needed):
//!   MIRIFLAGS=-Zmiri-disable-isolation cargo +nightly miri run --target i686-unknown-linux-gnu -- <dir>
//! Every file of <dir> is loaded; a panic (arithmetic overflow, index, unwrap) is caught, reported as a
//! `asemon32 PANIC` line and the run goes on; undefined behaviour ends the run with Miri's report. The C04 check
//! turns both into violations.
use std::sync::Mutex;
static LAST_PANIC: Mutex<String> = Mutex::new(String::new());

fn main() {
    let dir = std::env::args().nth(1).expect("usage: asemon32 <dir>");
    let mut files: Vec<_> = std::fs::read_dir(&dir).expect("read dir").filter_map(|e| e.ok()).map(|e| e.path()).collect();
    files.sort();
    std::panic::set_hook(Box::new(|info| {
        let loc = info.location().map(|l| format!("{}:{}", l.file(), l.line())).unwrap_or_default();
        let msg = info.payload().downcast_ref::<&str>().map(|s| s.to_string()).or_else(|| info.payload().downcast_ref::<String>().cloned()).unwrap_or_default();
        *LAST_PANIC.lock().unwrap() = format!("{} at {}", msg, loc);
    }));
    let (mut loaded, mut rejected, mut panics) = (0u64, 0u64, 0u64);
    for f in files.iter() {
        let bytes = std::fs::read(f).expect("read file");
        let name = f.file_name().and_then(|n| n.to_str()).unwrap_or("?").to_string();
        let t0 = std::time::Instant::now();
        let r = std::panic::catch_unwind(|| asefile::AsepriteFile::read(&bytes[..]).map(|ase| (ase.width(), ase.height(), ase.num_frames(), ase.num_layers())).map_err(|e| e.to_string()));
        if t0.elapsed().as_millis() > 1500 {
            println!("asemon32 slow {} : {} ms", name, t0.elapsed().as_millis());
        }
        match r {
            Ok(Ok(_)) => loaded += 1,
            Ok(Err(_)) => rejected += 1,
            Err(_) => {
                panics += 1;
                println!("asemon32 PANIC {} : {}", name, LAST_PANIC.lock().unwrap());
            }
        }
    }
    println!("asemon32 done pointer_width={} inputs={} loaded={} rejected={} panics={}", usize::BITS, files.len(), loaded, rejected, panics);
}
