#!/bin/bash
# setup_cmd: builds the monitor framework from files on disk only (offline)
# and warms the build caches used by the checks. Safe to re-run.
set -u
VERIF_DIR="$(cd "$(dirname "${BASH_SOURCE[0]}")" && pwd)"
export CARGO_NET_OFFLINE=true
cd "$VERIF_DIR/harness" || exit 1
chmod +x "$VERIF_DIR/check" 2>/dev/null
mkdir -p "$VERIF_DIR/evidence" "$VERIF_DIR/replays"
set -e
cargo build --offline --quiet --profile checked --bin asemon --bin asemon_c16 --bin sendsync_probe
cargo build --offline --quiet --profile release --bin asemon
cargo build --offline --quiet --profile dev --bin asemon
set +e
# oracle / reference-renderer self-checks against the Aseprite-rendered PNGs
ASEMON_VERIF_DIR="$VERIF_DIR" ./target/checked/asemon selfcheck || echo "WARNING: oracle self-check did not pass (C02/C03/C06 would be inconclusive)"
# warm the Miri build of the C16 workload (the check rebuilds only what changed)
MIRIFLAGS="-Zmiri-many-seeds=0..1" CARGO_TARGET_DIR="$VERIF_DIR/harness/target/miri-t" \
  cargo +nightly miri run --offline --quiet --bin c16_miri -- 1 1 >/dev/null 2>&1 || echo "WARNING: Miri warm-up failed (C16 would be inconclusive)"
# warm the 32-bit (i686) Miri sysroot and the build of the C04 32-bit driver
mkdir -p "$VERIF_DIR/harness/target/empty32"
(cd "$VERIF_DIR/harness32" && MIRIFLAGS=-Zmiri-disable-isolation CARGO_TARGET_DIR="$VERIF_DIR/harness/target/miri32-t" \
  cargo +nightly miri run --offline --quiet --target i686-unknown-linux-gnu -- "$VERIF_DIR/harness/target/empty32" >/dev/null 2>&1) || echo "WARNING: 32-bit Miri warm-up failed (C04 would be inconclusive)"
echo "setup done"
