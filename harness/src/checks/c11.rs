//! C11 — palettes decode correctly and indexed files need a complete palette.

use crate::common::*;
use crate::encode::encode;
use crate::gen;
use crate::model::*;
use crate::observe::ObsOpts;
use crate::program::{compile_with, PaletteProgram, Variation};
use crate::rng::Rng;
use crate::util::*;
use serde_json::json;
use std::collections::BTreeMap;

/// The property's legacy rule: opaque entries at the cumulative packet offsets
/// (running sum of the packets' skip bytes), count byte 0 = 256, 6-bit
/// components scaled so that 0 -> 0 and 63 -> 255.
pub fn legacy_expected(kind: u16, packets: &[(u8, Vec<[u8; 3]>)]) -> BTreeMap<u32, PalEntryM> {
    let mut out = BTreeMap::new();
    let mut skip: u32 = 0;
    for (s, cols) in packets {
        skip += *s as u32;
        for (k, c) in cols.iter().enumerate() {
            let rgb = if kind == 0x11 { [scale(c[0]), scale(c[1]), scale(c[2])] } else { *c };
            out.insert(skip + k as u32, PalEntryM { rgba: [rgb[0], rgb[1], rgb[2], 255], name: None });
        }
    }
    out
}

/// 0..63 -> 0..255 evenly with 0 -> 0 and 63 -> 255 (bit replication)
fn scale(c: u8) -> u8 {
    (c << 2) | (c >> 4)
}

pub fn gen_packets(rng: &mut Rng, kind: u16, case: u64) -> Vec<(u8, Vec<[u8; 3]>)> {
    let col = |rng: &mut Rng| -> [u8; 3] {
        if kind == 0x11 {
            [rng.u8() & 63, rng.u8() & 63, rng.u8() & 63]
        } else {
            [rng.u8(), rng.u8(), rng.u8()]
        }
    };
    match case % 7 {
        6 => {
            // hundreds of packets whose skip bytes sum beyond 65535
            let n = rng.range(257, 320) as usize;
            (0..n).map(|k| (if k % 2 == 0 { 255u8 } else { rng.range(200, 255) as u8 }, (0..rng.range(1, 2)).map(|_| col(rng)).collect())).collect()
        }
        0 => {
            // exhaustive 6-bit / 8-bit component table: entry i has components (i, 63-i, i) resp. (i,255-i,i)
            if kind == 0x11 {
                vec![(0, (0..64u32).map(|i| [i as u8, 63 - i as u8, ((i * 5) % 64) as u8]).collect())]
            } else {
                vec![(0, (0..256u32).map(|i| [i as u8, 255 - i as u8, (i * 5 % 256) as u8]).collect())]
            }
        }
        1 => vec![(0, (0..256).map(|_| col(rng)).collect())], // count byte 0 = 256
        2 => {
            // many packets with skips
            let n = rng.range(2, 12) as usize;
            (0..n).map(|_| (rng.range(0, 40) as u8, (0..rng.range(1, 20)).map(|_| col(rng)).collect())).collect()
        }
        3 => vec![(rng.range(1, 255) as u8, vec![col(rng)])], // single entry above 0
        4 => {
            // second packet starts at the running sum of skips: overlaps the first
            let a = rng.range(4, 30) as usize;
            vec![(rng.range(0, 10) as u8, (0..a).map(|_| col(rng)).collect()), (rng.range(0, 3) as u8, (0..rng.range(1, 6)).map(|_| col(rng)).collect())]
        }
        _ => {
            let n = rng.range(1, 5) as usize;
            (0..n).map(|_| (rng.range(0, 255) as u8, (0..rng.range(1, 256)).map(|_| col(rng)).collect())).collect()
        }
    }
}

fn new_palette_chunk(rng: &mut Rng, pal: &BTreeMap<u32, PalEntryM>) -> ChunkSpec {
    let junk = rng.chance(1, 2);
    crate::program::palette_chunk(pal, rng, junk)
}

pub fn run(ctx: &Ctx) -> i32 {
    let n = ctx.tier.pick(150_000u64, 2_000_000u64);
    let mut opts = ObsOpts::structure_only();
    let sum = run_cases(ctx, n, |i| {
        let mut rng = Rng::derive(ctx.seed, "C11", i);
        let mut res = CaseResult::default();
        res.nontrivial = true;
        let family = i % 8;
        let mut cfg = gen::GenCfg::tiny();
        cfg.attrs = false;
        cfg.tilemaps = i % 16 < 8;
        match family {
            // ---- positive: legacy chunk kinds alone -----------------------------------
            0 | 1 if (i / 8) % 5 == 4 => {
                // two legacy chunks and no new-format chunk: each sets the entries it lists (the second on top of the first)
                let ka = if family == 0 { 4u16 } else { 0x11 };
                let kb = if rng.chance(1, 2) { 4u16 } else { 0x11 };
                let pa = gen_packets(&mut rng, ka, 2 + (i / 40) % 4);
                let pb = gen_packets(&mut rng, kb, 2 + (i / 160) % 4);
                let mut pal = legacy_expected(ka, &pa);
                for (k, v) in legacy_expected(kb, &pb) {
                    pal.insert(k, v);
                }
                cfg.fmt = Some(if (i / 8) % 2 == 0 && pal.keys().any(|k| *k < 256) { Fmt::Indexed } else { Fmt::Rgba });
                cfg.max_frames = 3;
                let sp = sprite_with_palette(&mut rng, &cfg, pal);
                let (ca, cb) = (ChunkSpec::OldPalette { kind: ka, packets: pa }, ChunkSpec::OldPalette { kind: kb, packets: pb });
                res.feature = gen::features(&sp) ^ 0x2c2c;
                let later = sp.durations.len() > 1 && sp.fmt != Fmt::Indexed && rng.chance(1, 3);
                if later {
                    // the second chunk opens a later frame
                    res.outcomes.push("legacy-two-chunks:later-frame".into());
                    multi_frame_palette(&mut res, &sp, vec![ca], vec![cb], &mut rng, &opts, "legacy-two-chunks");
                } else {
                    res.outcomes.push("legacy-two-chunks".into());
                    positive(&mut res, &sp, &PaletteProgram::Chunks(vec![ca, cb]), &mut rng, &opts, "legacy-two-chunks");
                }
            }
            0 | 1 => {
                let kind = if family == 0 { 4u16 } else { 0x11 };
                let packets = gen_packets(&mut rng, kind, i / 8);
                let pal = legacy_expected(kind, &packets);
                let fmt = if (i / 8) % 2 == 0 { Fmt::Rgba } else { Fmt::Indexed };
                let usable = pal.keys().any(|k| *k < 256);
                cfg.fmt = Some(if fmt == Fmt::Indexed && usable { Fmt::Indexed } else { Fmt::Rgba });
                let sp = sprite_with_palette(&mut rng, &cfg, pal);
                let prog = PaletteProgram::Chunks(vec![ChunkSpec::OldPalette { kind, packets: packets.clone() }]);
                res.outcomes.push(format!("legacy-0x{:04x}", kind));
                res.feature = gen::features(&sp) ^ crate::rng::hash_bytes(&packets.iter().flat_map(|p| p.1.iter().flat_map(|c| c.to_vec())).collect::<Vec<u8>>());
                res.count("legacy_packets", packets.len() as u64);
                positive(&mut res, &sp, &prog, &mut rng, &opts, "legacy-palette");
                if i < 8 {
                    res.sample = Some(json!({"family": "legacy", "kind": kind, "packets": packets.iter().map(|p| format!("skip {} count {}", p.0, p.1.len())).collect::<Vec<_>>(), "expected_ids": sp.palette.as_ref().unwrap().keys().take(12).collect::<Vec<_>>()}));
                }
            }
            // ---- positive: new-format ranges ----------------------------------------------
            2 if (i / 8) % 4 == 1 => {
                // the palette written as several new-format chunks, each listing a part of the range
                // (consecutive parts, any order; a part may be restated; later parts may open later frames)
                cfg.max_frames = 3;
                // (this family sits at i % 32 == 10, where the shared `i % 16 < 8` switch is always off:) half of the
                // sprites carry tilesets, so that palette parts arrive after - and in later frames than - tileset chunks
                cfg.tilemaps = (i / 32) % 2 == 0;
                let (mut sp, _) = gen::gen_sprite(&mut rng, &cfg);
                let base = match &sp.palette {
                    Some(p) if p.len() >= 2 => p.clone(),
                    _ => {
                        let mut c2 = cfg.clone();
                        c2.fmt = Some(Fmt::Rgba);
                        gen::gen_palette(&mut rng, &c2, false)
                    }
                };
                if sp.palette.is_none() || sp.palette.as_ref().unwrap().len() < 2 {
                    if sp.fmt == Fmt::Indexed {
                        res.outcomes.push("skipped:tiny-indexed-palette".into());
                        res.nontrivial = false;
                        return res;
                    }
                    sp.palette = Some(base.clone());
                }
                sp.sprite_ud = None;
                let base = sp.palette.clone().unwrap();
                if base.len() < 2 {
                    res.outcomes.push("skipped:one-entry-palette".into());
                    res.nontrivial = false;
                    return res;
                }
                let keys: Vec<u32> = base.keys().cloned().collect();
                let parts = rng.range(2, 4.min(keys.len() as i64).max(2)) as usize;
                let mut cuts: Vec<usize> = (0..parts - 1).map(|_| 1 + rng.usize_below(keys.len() - 1)).collect();
                cuts.push(0);
                cuts.push(keys.len());
                cuts.sort_unstable();
                cuts.dedup();
                let mut chunks: Vec<ChunkSpec> = Vec::new();
                for w in cuts.windows(2) {
                    let part: BTreeMap<u32, PalEntryM> = keys[w[0]..w[1]].iter().map(|k| (*k, base[k].clone())).collect();
                    chunks.push(new_palette_chunk(&mut rng, &part));
                }
                if rng.chance(1, 3) {
                    // restate one part (same values)
                    let k = rng.usize_below(chunks.len());
                    chunks.push(chunks[k].clone());
                }
                if rng.chance(1, 2) {
                    rng.shuffle(&mut chunks);
                }
                match rng.below(4) {
                    0 => {
                        // an edit that also grows the palette: the first chunk lists keys[..c] with a stale colour at j,
                        // the second lists keys[j..] with the real colours (it re-lists j..c and reaches beyond c)
                        let c = 1 + rng.usize_below(keys.len() - 1);
                        let j = rng.usize_below(c);
                        let mut first: BTreeMap<u32, PalEntryM> = keys[..c].iter().map(|k| (*k, base[k].clone())).collect();
                        let e = first.get_mut(&keys[j]).unwrap();
                        e.rgba = [e.rgba[0] ^ 0x55, e.rgba[1].wrapping_add(100), e.rgba[2] ^ 0x0f, e.rgba[3]];
                        // the other re-listed entries keep their colour but were renamed, named or un-named since
                        for k in &keys[j + 1..c] {
                            let e = first.get_mut(k).unwrap();
                            match rng.below(4) {
                                0 => e.name = if e.name.is_some() { None } else { Some("stale".into()) },
                                1 => e.name = Some(format!("old name {}", k)),
                                _ => {}
                            }
                        }
                        if c - j > 1 {
                            res.count("split_edit_and_grow_renamed_same_colour", 1);
                        }
                        let second: BTreeMap<u32, PalEntryM> = keys[j..].iter().map(|k| (*k, base[k].clone())).collect();
                        chunks = vec![new_palette_chunk(&mut rng, &first), new_palette_chunk(&mut rng, &second)];
                        res.count("split_edit_and_grow", 1);
                    }
                    1 => {
                        // legacy chunks (different content, redundant beside new-format ones) anywhere in between
                        let n_legacy = rng.range(1, 2);
                        for _ in 0..n_legacy {
                            let kind = if rng.chance(1, 2) { 4u16 } else { 0x11 };
                            let pcase = 2 + rng.below(4);
                            let legacy = ChunkSpec::OldPalette { kind, packets: gen_packets(&mut rng, kind, pcase) };
                            let pos = rng.usize_below(chunks.len() + 1);
                            chunks.insert(pos, legacy);
                        }
                        res.count("split_with_legacy_in_between", 1);
                    }
                    _ => {}
                }
                res.feature = gen::features(&sp) ^ 0x5b17 ^ chunks.len() as u64;
                res.count("split_new_chunks", chunks.len() as u64);
                res.count("split_sprites_with_tilesets", !sp.tilesets.is_empty() as u64);
                // an indexed sprite needs its whole palette before validation only at the END of loading,
                // so parts may also arrive in later frames
                let later = sp.durations.len() > 1 && rng.chance(1, 2);
                if later {
                    let k = 1 + rng.usize_below(chunks.len() - 1);
                    let tail = chunks.split_off(k);
                    res.outcomes.push("new-format-split:later-frame".into());
                    multi_frame_palette(&mut res, &sp, chunks, tail, &mut rng, &opts, "new-palette-split");
                } else {
                    res.outcomes.push("new-format-split".into());
                    positive(&mut res, &sp, &PaletteProgram::Chunks(chunks), &mut rng, &opts, "new-palette-split");
                }
            }
            2 => {
                let (sp, prog) = gen::gen_sprite(&mut rng, &cfg);
                res.outcomes.push("new-format".into());
                res.feature = gen::features(&sp);
                if let Some(p) = &sp.palette {
                    res.count("new_format_entries", p.len() as u64);
                    res.count("new_format_first_above_0", (*p.keys().next().unwrap() > 0) as u64);
                    res.count("named_entries", p.values().filter(|e| e.name.is_some()).count() as u64);
                }
                positive(&mut res, &sp, &prog, &mut rng, &opts, "new-palette");
            }
            // ---- precedence: new + legacy in either order ----------------------------------
            3 => {
                cfg.fmt = Some(*rng.pick(&[Fmt::Rgba, Fmt::Indexed]));
                let (mut sp, _) = gen::gen_sprite(&mut rng, &cfg);
                if sp.palette.is_none() {
                    sp.palette = Some(gen::gen_palette(&mut rng, &cfg, false));
                }
                sp.sprite_ud = None;
                let pal = sp.palette.clone().unwrap();
                let kind = if rng.chance(1, 2) { 4u16 } else { 0x11 };
                let pcase = rng.below(7);
                let packets = gen_packets(&mut rng, kind, pcase);
                let legacy = ChunkSpec::OldPalette { kind, packets };
                let newc = new_palette_chunk(&mut rng, &pal);
                let before = rng.chance(1, 2);
                if sp.durations.len() > 1 && rng.chance(1, 3) {
                    // the legacy chunk opens a later frame; the new-format palette of frame 0 must still win
                    let mut o = opts.clone();
                    o.palette_probe = pal.keys().cloned().collect();
                    let mut spec = compile_with(&sp, &mut rng, &Variation::none(), &PaletteProgram::Chunks(vec![newc.clone()]));
                    let f = 1 + rng.usize_below(spec.frames.len() - 1);
                    let next_is_ud = matches!(spec.frames[f].chunks.first().map(|c| &c.spec), Some(ChunkSpec::UserData(_)));
                    if !next_is_ud && !spec.frames[f].chunks.is_empty() {
                        spec.frames[f].chunks.insert(0, legacy.clone().into());
                        res.outcomes.push("precedence:legacy-in-later-frame".into());
                        res.feature = gen::features(&sp) ^ 0x1a7e;
                        let bytes = encode(&spec).0;
                        match load(&bytes) {
                            Err(e) => res.violations.push(Violation::new(format!("load-failed|precedence-later-frame|{}", err_sig(&e)), format!("sprite with a redundant legacy palette in frame {} failed to load: {}", f, e)).with_input(&bytes)),
                            Ok(ase) => {
                                let obs = crate::observe::observe(&ase, &o);
                                let exp = crate::expect::expect(&sp, &o);
                                res.leaves += exp.leaves();
                                if let Some(d) = crate::val::diff(&obs, &exp) {
                                    res.violations.push(Violation::new(format!("mismatch|precedence-later-frame|{}", normalise_digits(&d.path)), format!("legacy palette chunk in frame {} changed the result: {}", f, d)).with_input(&bytes));
                                }
                            }
                        }
                        return res;
                    }
                }
                let chunks = if before { vec![legacy, newc] } else { vec![newc, legacy] };
                res.outcomes.push(format!("precedence:{}", if before { "legacy-first" } else { "new-first" }));
                res.feature = gen::features(&sp) ^ before as u64;
                positive(&mut res, &sp, &PaletteProgram::Chunks(chunks), &mut rng, &opts, "precedence");
            }
            // ---- negative: exactly one index removed, a pixel uses it ---------------------------
            4 | 5 => {
                cfg.fmt = Some(Fmt::Indexed);
                cfg.tilemaps = family == 5;
                if (i / 8) % 3 == 0 {
                    // pixel buffers beyond 256 pixels
                    cfg.max_cel = 24;
                    cfg.max_w = 24;
                    cfg.max_h = 24;
                }
                let (sp, _) = gen::gen_sprite(&mut rng, &cfg);
                res.feature = gen::features(&sp) ^ 0x4e47;
                negative_missing_index(&mut res, &sp, &mut rng, family == 5);
            }
            // ---- negative: indexed sprite with pixels and no palette -----------------------------
            6 => {
                cfg.fmt = Some(Fmt::Indexed);
                let (sp, _) = gen::gen_sprite(&mut rng, &cfg);
                res.feature = gen::features(&sp) ^ 0x4e50;
                let has_pixels = sp.cels.values().any(|c| matches!(c.content, CelContentM::Image { .. })) || !sp.tilesets.is_empty();
                if has_pixels {
                    let mut sp2 = sp.clone();
                    sp2.sprite_ud = None;
                    let bytes = encode(&compile_with(&sp2, &mut rng, &Variation::none(), &PaletteProgram::Chunks(vec![]))).0;
                    res.outcomes.push("negative:no-palette".into());
                    if load(&bytes).is_ok() {
                        res.violations.push(Violation::new("loads|indexed-without-palette", "indexed sprite with pixels and no palette chunk loaded").with_input(&bytes).with_extra(json!({"model": sprite_summary(&sp)})));
                    }
                    res.leaves += 1;
                } else {
                    res.outcomes.push("skipped:no-pixels".into());
                    res.nontrivial = false;
                }
            }
            // ---- exhaustive 6-bit table through both legacy kinds at every entry position ----------
            _ => {
                let c = (i / 8 % 64) as u8;
                let packets = vec![(c, vec![[c, 63 - c, c ^ 0x2a & 63], [63 - c, c, 0]])];
                let pal = legacy_expected(0x11, &packets);
                cfg.fmt = Some(Fmt::Rgba);
                let sp = sprite_with_palette(&mut rng, &cfg, pal);
                res.outcomes.push("sixbit-table".into());
                res.count(&format!("sixbit_component_{:02}", c), 1);
                res.feature = 0x6b17_0000 | c as u64;
                let e = sp.palette.as_ref().unwrap().get(&(c as u32)).unwrap().rgba;
                // the statement's two anchor points
                if c == 0 && e[0] != 0 || c == 63 && e[0] != 255 {
                    panic!("harness: scale rule broken");
                }
                positive(&mut res, &sp, &PaletteProgram::Chunks(vec![ChunkSpec::OldPalette { kind: 0x11, packets }]), &mut rng, &opts, "sixbit");
            }
        }
        res
    });
    let _ = &mut opts;
    finish(
        ctx,
        sum,
        Finish {
            rule: "8 families per 8 consecutive case indices: legacy 0x0004 and 0x0011 chunks alone (full component tables, count byte 0 = 256, many packets with skips, overlapping packets, single high entry), new-format ranges (first > 0, >= 256, named entries), a palette split over several new-format chunks (parts of the range in any order, a part restated, later parts in later frames), two legacy chunks without a new-format one (same or later frame), new+legacy in both orders, negatives: every generated indexed sprite with one used index removed from its palette (cel pixels / tileset pixels) and indexed sprites without any palette chunk, and the 6-bit table 0..63 at entry position = component; palette observed via palette()/num_colors()/color(i) for i in 0..320 plus extremes; distinct = model + packet hash".into(),
            coverage_extra: json!({}),
            assumptions: vec!["legacy 'cumulative packet offsets' = running sum of the packets' skip bytes (Aseprite's own reader and the property statement)".into(), "6-bit scaling = bit replication (c<<2)|(c>>4), the even map with 0->0 and 63->255".into()],
            exhaustive: false,
            min_evaluations: 1000,
        },
    )
}

fn sprite_with_palette(rng: &mut Rng, cfg: &gen::GenCfg, pal: BTreeMap<u32, PalEntryM>) -> Sprite {
    // generate, then swap in the palette and re-draw indexed pixels against it
    let (mut sp, _) = gen::gen_sprite(rng, cfg);
    sp.palette = Some(pal);
    sp.sprite_ud = None;
    if sp.fmt == Fmt::Indexed {
        let usable: Vec<u8> = sp.palette.as_ref().unwrap().keys().filter(|k| **k < 256).map(|k| *k as u8).collect();
        if !usable.contains(&sp.transparent_index) && !sp.tilesets.is_empty() {
            sp.transparent_index = usable[0];
        }
        let t = sp.transparent_index;
        for c in sp.cels.values_mut() {
            if let CelContentM::Image { pixels, .. } = &mut c.content {
                for p in pixels.iter_mut() {
                    *p = usable[*p as usize % usable.len()];
                }
            }
        }
        for ts in sp.tilesets.iter_mut() {
            let area = ts.tw as usize * ts.th as usize;
            for (k, p) in ts.pixels.iter_mut().enumerate() {
                *p = if k < area { t } else { usable[*p as usize % usable.len()] };
            }
        }
    }
    sp
}

/// `first` palette chunks at the palette position of frame 0, `later` ones at the start of a later frame.
fn multi_frame_palette(res: &mut CaseResult, sp: &Sprite, first: Vec<ChunkSpec>, later: Vec<ChunkSpec>, rng: &mut Rng, opts: &ObsOpts, what: &str) {
    let mut o = opts.clone();
    if let Some(p) = &sp.palette {
        o.palette_probe = p.keys().cloned().collect();
    }
    let mut spec = compile_with(sp, rng, &Variation::none(), &PaletteProgram::Chunks(first));
    let f = 1 + rng.usize_below(spec.frames.len() - 1);
    for (k, c) in later.into_iter().enumerate() {
        spec.frames[f].chunks.insert(k, c.into());
    }
    let bytes = encode(&spec).0;
    match load(&bytes) {
        Err(e) => res.violations.push(Violation::new(format!("load-failed|{}|{}", what, err_sig(&e)), format!("sprite whose palette is completed by a chunk in frame {} failed to load: {}", f, e)).with_input(&bytes).with_extra(json!({"model": sprite_summary(sp)}))),
        Ok(ase) => {
            let obs = crate::observe::observe(&ase, &o);
            let exp = crate::expect::expect(sp, &o);
            res.leaves += exp.leaves();
            if let Some(d) = crate::val::diff(&obs, &exp) {
                res.violations.push(Violation::new(format!("mismatch|{}|{}", what, normalise_digits(&d.path)), format!("palette chunks spread over frames 0 and {}: {}", f, d)).with_input(&bytes).with_extra(json!({"model": sprite_summary(sp)})));
            }
        }
    }
}

fn positive(res: &mut CaseResult, sp: &Sprite, prog: &PaletteProgram, rng: &mut Rng, opts: &ObsOpts, what: &str) {
    let mut o = opts.clone();
    if let Some(p) = &sp.palette {
        o.palette_probe = p.keys().cloned().collect();
    }
    let (_b, leaves, viol) = roundtrip(sp, prog, rng, &Variation::none(), &o, what);
    res.leaves += leaves;
    if let Some(v) = viol {
        res.violations.push(v);
    }
}

/// Remove one palette index that some pixel uses: the file must not load.
fn negative_missing_index(res: &mut CaseResult, sp: &Sprite, rng: &mut Rng, in_tileset: bool) {
    let pal = sp.palette.as_ref().unwrap();
    let mut used: Vec<u8> = Vec::new();
    if in_tileset {
        for t in &sp.tilesets {
            used.extend_from_slice(&t.pixels);
        }
    } else {
        for c in sp.cels.values() {
            if let CelContentM::Image { pixels, .. } = &c.content {
                used.extend_from_slice(pixels);
            }
        }
    }
    used.sort_unstable();
    used.dedup();
    if used.is_empty() || pal.len() < 2 {
        res.outcomes.push("skipped:nothing-to-remove".into());
        res.nontrivial = false;
        return;
    }
    let first = *pal.keys().next().unwrap();
    let last = *pal.keys().next_back().unwrap();
    // a new-format chunk covers a contiguous range, so an index can be removed at
    // either end of the range; the legacy form can punch a hole anywhere.
    let victim = *rng.pick(&used) as u32;
    let mut sp2 = sp.clone();
    sp2.sprite_ud = None;
    let chunks: Vec<ChunkSpec> = if victim == first || victim == last {
        let mut p2 = pal.clone();
        p2.remove(&victim);
        res.outcomes.push(format!("negative:missing-index:{}:range-end", if in_tileset { "tileset" } else { "cel" }));
        vec![crate::program::palette_chunk(&p2, rng, false)]
    } else if last < 256 + 255 {
        // legacy packets: [first..victim) then skip one, [victim+1..=last]
        res.outcomes.push(format!("negative:missing-index:{}:legacy-hole", if in_tileset { "tileset" } else { "cel" }));
        let a: Vec<[u8; 3]> = (first..victim).map(|k| [pal[&k].rgba[0], pal[&k].rgba[1], pal[&k].rgba[2]]).collect();
        let b: Vec<[u8; 3]> = (victim + 1..=last).map(|k| [pal[&k].rgba[0], pal[&k].rgba[1], pal[&k].rgba[2]]).collect();
        let mut packets = Vec::new();
        let mut cur = 0u32;
        let mut push = |start: u32, cols: Vec<[u8; 3]>, packets: &mut Vec<(u8, Vec<[u8; 3]>)>| {
            // split into packets of <=256 colours whose skip bytes are <=255
            let mut s = start;
            for chunk in cols.chunks(200) {
                let mut delta = s - cur;
                while delta > 255 {
                    // padding packets would add entries; instead restrict to cases where this cannot happen
                    delta -= 255;
                }
                packets.push(((s - cur).min(255) as u8, chunk.to_vec()));
                cur = s;
                s += chunk.len() as u32;
                let _ = delta;
            }
        };
        if !a.is_empty() {
            push(first, a, &mut packets);
        }
        if !b.is_empty() {
            push(victim + 1, b, &mut packets);
        }
        // verify the packets really produce a palette without the victim and with every other used index
        let exp = legacy_expected(4, &packets);
        let still_used_ok = used.iter().all(|u| *u as u32 == victim || exp.contains_key(&(*u as u32)));
        if exp.contains_key(&victim) || !still_used_ok {
            res.outcomes.pop();
            res.outcomes.push("skipped:hole-not-encodable".into());
            res.nontrivial = false;
            return;
        }
        vec![ChunkSpec::OldPalette { kind: 4, packets }]
    } else {
        res.outcomes.push("skipped:hole-not-encodable".into());
        res.nontrivial = false;
        return;
    };
    let bytes = encode(&compile_with(&sp2, rng, &Variation::none(), &PaletteProgram::Chunks(chunks))).0;
    res.leaves += 1;
    if load(&bytes).is_ok() {
        res.violations.push(
            Violation::new(format!("loads|pixel-index-absent-from-palette|{}", if in_tileset { "tileset" } else { "cel" }), format!("indexed sprite loaded although {} pixels use index {} which the palette does not contain", if in_tileset { "tileset" } else { "cel" }, victim))
                .with_input(&bytes)
                .with_extra(json!({"model": sprite_summary(sp), "missing_index": victim})),
        );
    }
}
