//! C10 — user data is attached to the entity it follows and to nothing else.
//! Oracle: a small automaton written from the property statement.
//! Workload: EXHAUSTIVE over all valid chunk programs up to a length bound,
//! second-frame variants for cel contexts, then random long programs.

use crate::common::*;
use crate::encode::encode;
use crate::model::*;
use crate::program::default_header;
use crate::rng::Rng;
use crate::util::*;
use serde_json::json;
use std::collections::BTreeMap;

#[derive(Clone, Copy, Debug, PartialEq, Eq)]
pub enum Sym {
    L,
    C,
    K, // linked cel (to frame 0, same layer)
    S,
    T0,
    T1,
    T2,
    /// a tags chunk with 300 tags
    T300,
    P4,
    P11,
    PN,
    I,
    U0,
    U1,
    U2,
    U3,
    /// start the next frame
    F,
}

impl Sym {
    fn name(self) -> &'static str {
        match self {
            Sym::L => "layer",
            Sym::C => "cel",
            Sym::K => "linkcel",
            Sym::S => "slice",
            Sym::T0 => "tags(0)",
            Sym::T1 => "tags(1)",
            Sym::T2 => "tags(2)",
            Sym::T300 => "tags(300)",
            Sym::P4 => "oldpal04",
            Sym::P11 => "oldpal11",
            Sym::PN => "palette",
            Sym::I => "ignorable",
            Sym::U0 => "ud(neither)",
            Sym::U1 => "ud(text)",
            Sym::U2 => "ud(colour)",
            Sym::U3 => "ud(both)",
            Sym::F => "|frame|",
        }
    }
    fn is_ud(self) -> bool {
        matches!(self, Sym::U0 | Sym::U1 | Sym::U2 | Sym::U3)
    }
}

pub const FRAME0_ALPHABET: [Sym; 14] = [Sym::L, Sym::C, Sym::S, Sym::T0, Sym::T1, Sym::T2, Sym::P4, Sym::P11, Sym::PN, Sym::I, Sym::U0, Sym::U1, Sym::U2, Sym::U3];
pub const FRAME1_ALPHABET: [Sym; 9] = [Sym::C, Sym::K, Sym::S, Sym::P4, Sym::I, Sym::U0, Sym::U1, Sym::U2, Sym::U3];

#[derive(Clone, Copy, Debug, PartialEq, Eq, PartialOrd, Ord)]
pub enum Ent {
    Sprite,
    Layer(usize),
    Cel(u16, u16),
    Slice(usize),
    Tag(usize),
}

#[derive(Clone, Copy, Debug, PartialEq)]
enum Ctx10 {
    None,
    Ent(Ent),
    Tag(usize),
}

/// The specification automaton + well-formedness filter of the quantifier.
#[derive(Clone, Debug)]
pub struct Machine {
    frame: u16,
    layers: usize,
    /// cels per frame: frame -> set of layers that have a cel
    cels: Vec<Vec<u16>>,
    raw_in_frame0: Vec<u16>,
    slices: usize,
    tags: Option<usize>,
    ctx: Ctx10,
    pub attached: BTreeMap<Ent, usize>, // entity -> position of its record
    pub seq: Vec<Sym>,
}

impl Machine {
    pub fn new() -> Machine {
        Machine { frame: 0, layers: 0, cels: vec![vec![]], raw_in_frame0: vec![], slices: 0, tags: None, ctx: Ctx10::None, attached: BTreeMap::new(), seq: vec![] }
    }
    /// Apply a symbol; None if the extended program violates the quantifier's side conditions.
    pub fn step(&self, s: Sym) -> Option<Machine> {
        let mut m = self.clone();
        if m.step_mut(s) {
            Some(m)
        } else {
            None
        }
    }

    /// In-place version (the machine is left in an unspecified state when it returns false).
    pub fn step_mut(&mut self, s: Sym) -> bool {
        match self.step_inner(s) {
            Some(()) => true,
            None => false,
        }
    }

    fn step_inner(&mut self, s: Sym) -> Option<()> {
        let m = self;
        let pos = m.seq.len();
        m.seq.push(s);
        match s {
            Sym::L => {
                if m.frame != 0 {
                    return None;
                }
                m.layers += 1;
                m.ctx = Ctx10::Ent(Ent::Layer(m.layers - 1));
            }
            Sym::C | Sym::K => {
                // next layer without a cel in this frame (its layer chunk must precede)
                let f = m.frame as usize;
                let l = (0..m.layers as u16).find(|l| !m.cels[f].contains(l))?;
                if s == Sym::K {
                    if m.frame == 0 || !m.raw_in_frame0.contains(&l) {
                        return None;
                    }
                } else if m.frame == 0 {
                    m.raw_in_frame0.push(l);
                }
                m.cels[f].push(l);
                m.ctx = Ctx10::Ent(Ent::Cel(m.frame, l));
            }
            Sym::S => {
                m.slices += 1;
                m.ctx = Ctx10::Ent(Ent::Slice(m.slices - 1));
            }
            Sym::T0 | Sym::T1 | Sym::T2 | Sym::T300 => {
                if m.frame != 0 {
                    return None;
                }
                // a further tags chunk appends its tags; records that follow it go to ITS tags in order
                let start = m.tags.unwrap_or(0);
                m.tags = Some(start + match s {
                    Sym::T0 => 0,
                    Sym::T1 => 1,
                    Sym::T300 => 300,
                    _ => 2,
                });
                m.ctx = Ctx10::Tag(start);
            }
            Sym::P4 | Sym::P11 => {
                m.ctx = Ctx10::Ent(Ent::Sprite);
            }
            Sym::PN | Sym::I => {}
            Sym::F => {
                m.frame += 1;
                m.cels.push(vec![]);
            }
            Sym::U0 | Sym::U1 | Sym::U2 | Sym::U3 => match m.ctx {
                Ctx10::None => return None,
                Ctx10::Ent(e) => {
                    if m.attached.contains_key(&e) {
                        return None; // no entity receives two records
                    }
                    m.attached.insert(e, pos);
                }
                Ctx10::Tag(k) => {
                    if k >= m.tags.unwrap_or(0) {
                        return None; // at most n records follow a tags(n) chunk
                    }
                    m.attached.insert(Ent::Tag(k), pos);
                    m.ctx = Ctx10::Tag(k + 1);
                }
            },
        }
        Some(())
    }

    fn ud_for(pos: usize, s: Sym) -> UserDataM {
        let text = Some(format!("ud#{}", pos));
        // the record's position identifies it; the alpha byte walks through the boundary values (a colour with alpha 0 is a colour)
        let color = Some([pos as u8, (pos >> 8) as u8, 0xC1, [0x0Du8, 0, 255, 0x80, 1][(pos / 3) % 5]]);
        match s {
            Sym::U0 => UserDataM { text: None, color: None },
            Sym::U1 => UserDataM { text, color: None },
            Sym::U2 => UserDataM { text: None, color },
            _ => UserDataM { text, color },
        }
    }

    /// The file this program denotes.
    pub fn file(&self) -> FileSpec {
        let frames_n = self.frame as usize + 1;
        let sp = Sprite::blank(4, 4, Fmt::Rgba, frames_n);
        let mut header = default_header(&sp);
        header.frames = frames_n as u16;
        let mut frames: Vec<FrameSpec> = (0..frames_n).map(|_| FrameSpec::new(100)).collect();
        let mut f = 0usize;
        let mut layers = 0usize;
        let mut cels: Vec<Vec<u16>> = vec![vec![]; frames_n];
        let mut slices = 0;
        let mut tags_emitted = 0usize;
        for (pos, s) in self.seq.iter().enumerate() {
            let chunk = match s {
                Sym::L => {
                    layers += 1;
                    let mut l = LayerM::image(&format!("L{}", layers - 1));
                    if layers % 3 == 0 {
                        // a (childless) group layer: cel chunks and their records may name it like any other layer
                        l.kind = LayerKind::Group;
                    }
                    Some(ChunkSpec::Layer { l, junk: LayerJunk { default_w: 0, default_h: 0, r1: 0, r2: 0 } })
                }
                Sym::C | Sym::K => {
                    let l = (0..layers as u16).find(|l| !cels[f].contains(l)).unwrap();
                    cels[f].push(l);
                    let content = if *s == Sym::K { CelContentM::Link(0) } else { CelContentM::Image { w: 1, h: 1, pixels: vec![pos as u8, 2, 3, 255] } };
                    Some(ChunkSpec::Cel { layer: l, c: CelM { x: 0, y: 0, opacity: 255, content, ud: None }, storage: if pos % 2 == 0 { Storage::Raw } else { Storage::Zlib(6) }, reserved: [0; 7], cel_type_override: None })
                }
                Sym::S => {
                    slices += 1;
                    Some(ChunkSpec::Slice { s: SliceM { name: format!("S{}", slices - 1), flags: (pos % 4) as u32, keys: if pos % 2 == 0 { vec![] } else { vec![SliceKeyM { frame: 0, x: 1, y: 2, w: 3, h: 4, center: Some((1, 1, 1, 1)), pivot: Some((2, 2)) }] }, ud: None }, reserved: 0 })
                }
                Sym::T0 | Sym::T1 | Sym::T2 | Sym::T300 => {
                    let n = match s {
                        Sym::T0 => 0,
                        Sym::T1 => 1,
                        Sym::T300 => 300,
                        _ => 2,
                    };
                    let first = tags_emitted;
                    tags_emitted += n;
                    Some(ChunkSpec::Tags { tags: (first..first + n).map(|k| TagM { from: (k % 7) as u16, to: (k % 7) as u16, dir: 0, repeat: 0, color: 0x0011_2233 + k as u32 * 0x0001_0101, name: format!("T{}", k), ud: None }).collect(), reserved: [0; 8], tag_reserved: [0; 6] })
                }
                Sym::P4 if pos % 5 == 2 => Some(ChunkSpec::OldPalette { kind: 4, packets: vec![(0, (0..256u32).map(|k| [k as u8, 2, 3]).collect())] }),
                Sym::P4 => Some(ChunkSpec::OldPalette { kind: 4, packets: vec![(0, vec![[1, 2, 3], [4, 5, 6]])] }),
                Sym::P11 => Some(ChunkSpec::OldPalette { kind: 0x11, packets: vec![(0, vec![[1, 2, 3], [63, 0, 31]])] }),
                // a palette chunk is ignorable whatever its size: 2 colours, or (at every fifth position) more than 256,
                // the size from which Aseprite stops writing the legacy chunk beside it
                Sym::PN if pos % 5 == 3 => Some(ChunkSpec::Palette { total: 300, first: 0, entries: (0..300u32).map(|k| PalChunkEntry { flags_extra: 0, rgba: [k as u8, (k >> 8) as u8, 7, 255], name: if k == 299 { Some("last".into()) } else { None } }).collect(), reserved: [0; 8] }),
                Sym::PN => Some(ChunkSpec::Palette { total: 2, first: 0, entries: vec![PalChunkEntry { flags_extra: 0, rgba: [9, 8, 7, 255], name: None }, PalChunkEntry { flags_extra: 0, rgba: [1, 1, 1, 128], name: Some("n".into()) }], reserved: [0; 8] }),
                Sym::I => Some(match pos % 4 {
                    0 => ChunkSpec::CelExtra,
                    1 => ChunkSpec::Mask,
                    2 => ChunkSpec::Path,
                    _ => ChunkSpec::ColorProfile { ty: (pos % 2) as u16, flags: 0, gamma: 0, icc: None },
                }),
                Sym::F => {
                    f += 1;
                    None
                }
                u => Some(ChunkSpec::UserData(Machine::ud_for(pos, *u))),
            };
            if let Some(c) = chunk {
                let mut item: ChunkItem = c.into();
                if s.is_ud() {
                    // undefined bits of the flags word (the format defines 1 text, 2 colour, 4 properties)
                    item.flag_junk = [0u32, 0x8, 0, 0x100, 0xffff_fff8, 0, 0x8000_0000][pos % 7];
                }
                frames[f].chunks.push(item);
            }
        }
        FileSpec { header, frames, trailer: vec![], fmt: Fmt::Rgba }
    }

    pub fn describe(&self) -> String {
        self.seq.iter().map(|s| s.name()).collect::<Vec<_>>().join(" ")
    }

    /// Load the program's file and compare every entity's user data with the automaton.
    pub fn check(&self) -> (u64, Option<Violation>) {
        let (bytes, _) = encode(&self.file());
        let prog = self.describe();
        let mk = |sig: String, detail: String| Some(Violation::new(sig, format!("{} — program: {}", detail, prog)).with_input(&bytes).with_extra(json!({"program": prog})));
        let ase = match load(&bytes) {
            Ok(a) => a,
            Err(e) => return (0, mk(format!("load-failed|program|{}", err_sig(&e)), format!("valid chunk program failed to load: {}", e))),
        };
        let want = |e: Ent| -> crate::val::V { crate::expect::ud_v(self.attached.get(&e).map(|p| Machine::ud_for(*p, self.seq[*p])).as_ref()) };
        let mut n = 0u64;
        let mut cmp = |what: String, kind: &str, got: crate::val::V, e: Ent| -> Option<Violation> {
            let w = want(e);
            if got != w {
                let verdict = if w == crate::val::V::Nil { "reports a record it never received" } else if got == crate::val::V::Nil { "lost its record" } else { "has the wrong record" };
                mk(format!("attachment|{}|{}", kind, verdict), format!("{} {}: observed {} expected {}", what, verdict, got.short(), w.short()))
            } else {
                None
            }
        };
        if let Some(v) = cmp("sprite".into(), "sprite", crate::observe::ud_v(ase.sprite_user_data()), Ent::Sprite) {
            return (n, Some(v));
        }
        n += 1;
        if ase.num_layers() as usize != self.layers {
            return (n, mk("structure|layers".into(), format!("{} layers, program has {}", ase.num_layers(), self.layers)));
        }
        for l in 0..self.layers {
            if let Some(v) = cmp(format!("layer {}", l), "layer", crate::observe::ud_v(ase.layer(l as u32).user_data()), Ent::Layer(l)) {
                return (n, Some(v));
            }
            n += 1;
            for f in 0..=self.frame {
                let cel = ase.cel(f as u32, l as u32);
                let present = self.cels[f as usize].contains(&(l as u16));
                if cel.is_empty() == present {
                    return (n, mk("structure|cel".into(), format!("cel f{} l{} is_empty={} but program {} it", f, l, cel.is_empty(), if present { "defines" } else { "does not define" })));
                }
                if let Some(v) = cmp(format!("cel f{} l{}", f, l), "cel", crate::observe::ud_v(cel.user_data()), Ent::Cel(f, l as u16)) {
                    return (n, Some(v));
                }
                n += 1;
            }
        }
        if ase.num_tags() as usize != self.tags.unwrap_or(0) {
            return (n, mk("structure|tags".into(), format!("{} tags, program has {:?}", ase.num_tags(), self.tags)));
        }
        for t in 0..ase.num_tags() {
            if ase.tag(t).name() != format!("T{}", t) {
                return (n, mk("structure|tag-order".into(), format!("tag {} is named {:?}: the tags of successive tags chunks must appear in file order", t, ase.tag(t).name())));
            }
            if let Some(v) = cmp(format!("tag {}", t), "tag", crate::observe::ud_v(ase.tag(t).user_data()), Ent::Tag(t as usize)) {
                return (n, Some(v));
            }
            n += 1;
        }
        if ase.slices().len() != self.slices {
            return (n, mk("structure|slices".into(), format!("{} slices, program has {}", ase.slices().len(), self.slices)));
        }
        for (i, s) in ase.slices().iter().enumerate() {
            if let Some(v) = cmp(format!("slice {}", i), "slice", crate::observe::ud_v(s.user_data.as_ref()), Ent::Slice(i)) {
                return (n, Some(v));
            }
            n += 1;
        }
        (n, None)
    }
}

struct Acc {
    programs: u64,
    with_ud: u64,
    leaves: u64,
    violations: Vec<Violation>,
    feature: u64,
    by_len: BTreeMap<usize, u64>,
    sample: Option<String>,
}

fn dfs(m: &Machine, alphabet: &[Sym], depth_left: usize, base_len: usize, acc: &mut Acc) {
    // every valid prefix is itself a program
    let (n, v) = m.check();
    acc.programs += 1;
    acc.leaves += n;
    *acc.by_len.entry(m.seq.len() - base_len).or_insert(0) += 1;
    if !m.attached.is_empty() {
        acc.with_ud += 1;
    }
    acc.feature = crate::rng::mix(acc.feature ^ crate::rng::hash_str(&m.describe()));
    if acc.sample.is_none() && m.attached.len() >= 2 {
        acc.sample = Some(m.describe());
    }
    if let Some(v) = v {
        if acc.violations.len() < 5 {
            acc.violations.push(v);
        }
    }
    if depth_left == 0 {
        return;
    }
    for s in alphabet {
        if let Some(next) = m.step(*s) {
            dfs(&next, alphabet, depth_left - 1, base_len, acc);
        }
    }
}

pub fn run(ctx: &Ctx) -> i32 {
    let max_len = ctx.tier.pick(5usize, 6usize);
    let max_len_f1 = ctx.tier.pick(4usize, 5usize);
    // ---- exhaustive, frame 0: partition by the first two symbols --------------
    let mut roots: Vec<(Machine, &'static [Sym], usize, usize, &'static str)> = Vec::new();
    let empty = Machine::new();
    for a in FRAME0_ALPHABET {
        if let Some(m1) = empty.step(a) {
            for b in FRAME0_ALPHABET {
                if let Some(m2) = m1.step(b) {
                    roots.push((m2, &FRAME0_ALPHABET, max_len - 2, 0, "frame0"));
                }
            }
            // length-1 programs are covered by the roots of length 2's parents: add them explicitly
            roots.push((m1.clone(), &FRAME0_ALPHABET, 0, 0, "frame0-len1"));
        }
    }
    // ---- exhaustive, second-frame variants: frame 0 = [layer, cel] ------------------
    let prefix = empty.step(Sym::L).unwrap().step(Sym::C).unwrap().step(Sym::F).unwrap();
    let prefix2 = empty.step(Sym::L).unwrap().step(Sym::C).unwrap().step(Sym::U3).unwrap().step(Sym::F).unwrap();
    for p in [&prefix, &prefix2] {
        for a in FRAME1_ALPHABET {
            if let Some(m1) = p.step(a) {
                roots.push((m1, &FRAME1_ALPHABET, max_len_f1 - 1, p.seq.len(), "frame1"));
            }
        }
    }
    let nroots = roots.len() as u64;
    let mut sum = run_cases(ctx, nroots, |i| {
        let (m, alphabet, depth, base, kind) = &roots[i as usize];
        let mut acc = Acc { programs: 0, with_ud: 0, leaves: 0, violations: vec![], feature: 0, by_len: BTreeMap::new(), sample: None };
        dfs(m, alphabet, *depth, *base, &mut acc);
        let mut res = CaseResult::default();
        res.nontrivial = true;
        res.feature = acc.feature | 1;
        res.leaves = acc.leaves;
        res.outcomes.push(format!("subtree:{}", kind));
        res.count("exhaustive_programs", acc.programs);
        res.count("exhaustive_programs_with_user_data", acc.with_ud);
        for (l, c) in acc.by_len {
            res.count(&format!("{}_programs_len_{}", kind, l), c);
        }
        res.violations = acc.violations;
        if i % 37 == 5 {
            res.sample = acc.sample.map(|s| json!({"exhaustive_program": s}));
        }
        res
    });
    // ---- random long programs ------------------------------------------------------------
    let nrand = ctx.tier.pick(150_000u64, 3_000_000u64);
    let full: Vec<Sym> = vec![Sym::L, Sym::C, Sym::K, Sym::S, Sym::T0, Sym::T1, Sym::T2, Sym::P4, Sym::P11, Sym::PN, Sym::I, Sym::I, Sym::U0, Sym::U1, Sym::U2, Sym::U3, Sym::U3, Sym::U1, Sym::F];
    let rnd = run_stage(ctx, "random-programs", nrand, |i| {
        let mut rng = Rng::derive(ctx.seed, "C10", i);
        let len = rng.range(7, 60) as usize;
        let mut m = Machine::new();
        let mut guard = 0;
        while m.seq.len() < len && guard < 2000 {
            guard += 1;
            let s = *rng.pick(&full);
            if s == Sym::F && (m.frame >= 3 || m.layers == 0) {
                continue;
            }
            if let Some(n) = m.step(s) {
                m = n;
            }
        }
        let (n, v) = m.check();
        let mut res = CaseResult::ok(crate::rng::hash_str(&m.describe()), n, "random-program");
        res.count("random_program_chunks", m.seq.len() as u64);
        res.count("random_program_records", m.attached.len() as u64);
        if let Some(v) = v {
            res.violations.push(v);
        }
        if i == 1 {
            res.sample = Some(json!({"random_program": m.describe(), "attachments": m.attached.iter().map(|(e, p)| format!("{:?} <- record at position {}", e, p)).collect::<Vec<_>>()}));
        }
        res
    });
    sum.merge(rnd);
    // ---- giant programs: entity counts beyond 255 and beyond 65535 -------------------------------------
    let giants = run_stage(ctx, "giant-programs", 8, |k| {
        let mut m = Machine::new();
        if k >= 6 {
            // tags(300) followed by 300 records (k = 6) or by 257 records (k = 7)
            let mut m = Machine::new();
            assert!(m.step_mut(Sym::L));
            assert!(m.step_mut(Sym::T300));
            let nrec = if k == 6 { 300 } else { 257 };
            for i in 0..nrec {
                assert!(m.step_mut([Sym::U3, Sym::U1, Sym::U0, Sym::U2][i % 4]));
            }
            let (leaves, v) = m.check();
            let mut res = CaseResult::ok(crate::rng::hash_str("tags300") ^ k, leaves, "giant-program");
            res.count("giant_program_chunks", m.seq.len() as u64);
            if let Some(v) = v {
                res.violations.push(v);
            }
            res.sample = Some(json!({"giant_program": format!("layer, tags(300), {} records", nrec)}));
            return res;
        }
        let (ent, n, name): (Sym, usize, &str) = match k {
            0 => (Sym::S, 65_537, "65537 slices"),
            1 => (Sym::L, 65_537, "65537 layers"),
            2 => (Sym::S, 300, "300 slices, every one with a record"),
            3 => (Sym::L, 300, "300 layers, every one with a record"),
            4 => (Sym::L, 300, "300 layers + a cel with a record on each"),
            _ => (Sym::L, 260, "260 layers, cels with records in 4 frames"),
        };
        let every = n <= 300;
        for i in 0..n {
            assert!(m.step_mut(ent));
            if every || i == 0 || i == 255 || i == 256 || i == 65_535 || i == 65_536 || i + 1 == n {
                assert!(m.step_mut(if i % 2 == 0 { Sym::U3 } else { Sym::U1 }));
            }
        }
        if k >= 4 {
            let frames = if k == 4 { 1 } else { 4 };
            for f in 0..frames {
                if f > 0 {
                    assert!(m.step_mut(Sym::F));
                }
                for i in 0..n {
                    assert!(m.step_mut(if f > 0 && i % 3 == 0 { Sym::K } else { Sym::C }));
                    if i % 2 == 0 || i >= 255 {
                        assert!(m.step_mut(Sym::U3));
                    }
                }
            }
        }
        let (leaves, v) = m.check();
        let mut res = CaseResult::ok(crate::rng::hash_str(name), leaves, "giant-program");
        res.count("giant_program_chunks", m.seq.len() as u64);
        if let Some(v) = v {
            res.violations.push(v);
        }
        res.sample = Some(json!({"giant_program": name, "chunks": m.seq.len(), "records": m.attached.len()}));
        res
    });
    sum.merge(giants);
    let exhaustive = sum.counters.get("exhaustive_programs").cloned().unwrap_or(0);
    finish(
        ctx,
        sum,
        Finish {
            rule: format!("EXHAUSTIVE: every chunk program of length <= {} over {{layer, cel, slice, tags(0|1|2), legacy palette 0x0004, legacy palette 0x0011, palette, ignorable, user-data(neither|text|colour|both)}} that satisfies the quantifier's side conditions (validity is decided by the specification automaton, which is prefix-closed), plus every second-frame program of length <= {} over {{cel, linked cel, slice, legacy palette, ignorable, user-data x4}} after frame 0 = [layer, cel] and [layer, cel, user-data]; then random programs of 7..60 chunks over up to 4 frames; each record carries a unique id; evaluations = DFS subtrees + random programs, distinct = distinct program text hash per subtree/program", max_len, max_len_f1),
            coverage_extra: json!({"exhaustive_programs_checked": exhaustive, "max_len_frame0": max_len, "max_len_frame1": max_len_f1, "random_programs": nrand}),
            assumptions: vec!["cel chunks are only generated after the layer chunk they reference".into(), "a further tags chunk in the first frame appends its tags (file order), and the records following it go to its own tags".into()],
            exhaustive: true,
            min_evaluations: 100,
        },
    )
}
