//! C07 — observationally neutral encoding choices do not change the result.
//! Metamorphic: k encodings of one model must all observe equal (and equal
//! the model's expectation).

use crate::common::*;
use crate::encode::encode;
use crate::expect::expect;
use crate::gen::{self, GenCfg};
use crate::observe::{observe, ObsOpts};
use crate::program::{compile_with, Variation};
use crate::rng::Rng;
use crate::util::*;
use crate::val::diff;
use serde_json::json;

pub fn run(ctx: &Ctx) -> i32 {
    let n = ctx.tier.pick(12_000u64, 100_000u64);
    let k = ctx.tier.pick(5usize, 16usize);
    let opts = ObsOpts::full();
    let sum = run_cases(ctx, n, |i| {
        let mut rng = Rng::derive(ctx.seed, "C07", i);
        let mut cfg = GenCfg::small();
        cfg.max_w = 16;
        cfg.max_h = 16;
        cfg.max_cel = 10;
        cfg.big = true;
        cfg.flat = true;
        cfg.max_layers = 6;
        cfg.max_frames = 4;
        cfg.extremes = i % 4 == 0;
        let (sp, palprog) = gen::gen_sprite(&mut rng, &cfg);
        let mut res = CaseResult::ok(gen::features(&sp), 0, "ok");
        let exp = expect(&sp, &opts);
        // baseline encoding
        let base_bytes = encode(&compile_with(&sp, &mut rng, &Variation::none(), &palprog)).0;
        let base = match load(&base_bytes) {
            Ok(a) => observe(&a, &opts),
            Err(e) => {
                res.violations.push(Violation::new(format!("load-failed|baseline|{}", err_sig(&e)), format!("baseline encoding failed to load: {}", e)).with_input(&base_bytes));
                return res;
            }
        };
        if let Some(d) = diff(&base, &exp) {
            res.violations.push(Violation::new(format!("mismatch|baseline|{}", normalise_digits(&d.path)), format!("baseline: {}", d)).with_input(&base_bytes).with_extra(json!({"model": sprite_summary(&sp)})));
        }
        res.leaves += exp.leaves();
        for j in 0..k {
            // one-at-a-time choices first, then combined random vectors
            let v = if j < 9 && (i as usize + j) % 2 == 0 {
                Variation::only((i as usize + j) % 9)
            } else if j == k - 1 {
                Variation::all()
            } else {
                let mut v = Variation::none();
                v.storage = rng.chance(1, 2);
                v.count_style = rng.chance(1, 2);
                v.ignorable = rng.chance(1, 2);
                v.junk = rng.chance(1, 2);
                v.zero_ratio = rng.chance(1, 2);
                v.padding = rng.chance(1, 2);
                v.trailer = rng.chance(1, 2);
                v.legacy_pal = rng.chance(1, 2);
                v.cel_order = rng.chance(1, 2);
                v
            };
            let bytes = encode(&compile_with(&sp, &mut rng, &v, &palprog)).0;
            res.count(&format!("choice:{}", if v.describe().contains('+') { "combined".to_string() } else { v.describe() }), 1);
            res.count("encodings", 1);
            match load(&bytes) {
                Err(e) => {
                    res.violations.push(
                        Violation::new(format!("load-differs|{}|{}", v.describe(), err_sig(&e)), format!("encoding with neutral choices [{}] fails to load ({}), baseline loads", v.describe(), e))
                            .with_input(&bytes)
                            .with_extra(json!({"model": sprite_summary(&sp), "variation": v.describe()})),
                    );
                }
                Ok(a) => {
                    let o = observe(&a, &opts);
                    res.leaves += exp.leaves();
                    if let Some(d) = diff(&o, &base) {
                        res.violations.push(
                            Violation::new(format!("observation-differs|{}|{}", v.describe(), normalise_digits(&d.path)), format!("neutral choices [{}] changed the observation: {} (second value = baseline encoding)", v.describe(), d))
                                .with_input(&bytes)
                                .with_extra(json!({"model": sprite_summary(&sp), "variation": v.describe(), "path": d.path})),
                        );
                    }
                }
            }
        }
        if i == 0 {
            res.sample = Some(json!({"case": i, "model": sprite_summary(&sp), "encodings": k + 1, "baseline_len": base_bytes.len()}));
        }
        res
    });
    finish(
        ctx,
        sum,
        Finish {
            rule: "each PRNG-generated model is encoded under k+1 vectors of neutral choices (baseline; each of the 9 choices alone: storage raw/zlib 0-9/stored blocks, chunk-count field, ignorable chunks in any gap, junk in unused header/layer/cel/tag/slice fields, zero pixel-ratio component, chunk-end padding, trailing bytes, redundant legacy palette, permuted cel chunks; random combinations; all at once); whole-API observations (structure, cels, cel images, frame images, tileset images, tilemaps) must be equal to the baseline's and to the model's expectation; distinct = model feature hash".into(),
            coverage_extra: json!({"encodings_per_model": k + 1}),
            assumptions: vec!["header flag bit0 (layer opacity valid) is kept set; pixel ratio a:b with a=b>1 is never generated (the crate refuses 2:2)".into()],
            exhaustive: false,
            min_evaluations: 100,
        },
    )
}
