//! C07 — observationally neutral encoding choices do not change the result.
//! Metamorphic: k encodings of one model must all observe equal (and equal
//! the model's expectation).

use crate::common::*;
use crate::encode::encode;
use crate::expect::expect;
use crate::gen::{self, GenCfg};
use crate::observe::{observe, ObsOpts};
use crate::program::{compile_with, Variation};
use crate::rng::Rng;
use crate::util::*;
use crate::val::diff;
use serde_json::json;

pub fn run(ctx: &Ctx) -> i32 {
    let n = ctx.tier.pick(12_000u64, 100_000u64);
    let k = ctx.tier.pick(5usize, 16usize);
    let opts = ObsOpts::full();
    let sum = run_cases(ctx, n, |i| {
        let mut rng = Rng::derive(ctx.seed, "C07", i);
        let mut cfg = GenCfg::small();
        cfg.max_w = 16;
        cfg.max_h = 16;
        cfg.max_cel = 10;
        cfg.big = true;
        cfg.flat = true;
        cfg.max_layers = 6;
        cfg.max_frames = 4;
        cfg.extremes = i % 4 == 0;
        let (mut sp, palprog) = gen::gen_sprite(&mut rng, &cfg);
        if i % 5 == 3 {
            // every layer opaque: such a sprite may be written with the header's "layer opacity valid" bit
            // clear, which makes the opacity byte of every layer chunk an unused field (junk choice)
            for l in sp.layers.iter_mut() {
                l.opacity = 255;
            }
        }
        // one in eight non-indexed sprites has its palette from a legacy chunk only (then the header's colour
        // count and every other unused field must still not matter)
        let mut palprog = palprog;
        if sp.fmt != crate::model::Fmt::Indexed && sp.sprite_ud.is_none() && i % 8 == 5 {
            let kind = if rng.chance(1, 2) { 4u16 } else { 0x11 };
            let pcase = rng.below(6);
            let packets = crate::checks::c11::gen_packets(&mut rng, kind, pcase);
            sp.palette = Some(crate::checks::c11::legacy_expected(kind, &packets));
            palprog = crate::program::PaletteProgram::Chunks(vec![crate::model::ChunkSpec::OldPalette { kind, packets }]);
        }
        let sp = sp;
        let mut res = CaseResult::ok(gen::features(&sp), 0, "ok");
        if sp.layers.iter().all(|l| l.opacity == 255) {
            res.count("models_with_all_layers_opaque", 1);
        }
        let exp = expect(&sp, &opts);
        // baseline encoding
        let base_bytes = encode(&compile_with(&sp, &mut rng, &Variation::none(), &palprog)).0;
        let base = match load(&base_bytes) {
            Ok(a) => observe(&a, &opts),
            Err(e) => {
                res.violations.push(Violation::new(format!("load-failed|baseline|{}", err_sig(&e)), format!("baseline encoding failed to load: {}", e)).with_input(&base_bytes));
                return res;
            }
        };
        if let Some(d) = diff(&base, &exp) {
            res.violations.push(Violation::new(format!("mismatch|baseline|{}", normalise_digits(&d.path)), format!("baseline: {}", d)).with_input(&base_bytes).with_extra(json!({"model": sprite_summary(&sp)})));
        }
        res.leaves += exp.leaves();
        for j in 0..k {
            // one-at-a-time choices first, then combined random vectors
            let v = if j < 10 && (i as usize + j) % 2 == 0 {
                Variation::only((i as usize + j) % 10)
            } else if j == k - 1 {
                Variation::all()
            } else {
                let mut v = Variation::none();
                v.storage = rng.chance(1, 2);
                v.count_style = rng.chance(1, 2);
                v.ignorable = rng.chance(1, 2);
                v.junk = rng.chance(1, 2);
                v.zero_ratio = rng.chance(1, 2);
                v.padding = rng.chance(1, 2);
                v.trailer = rng.chance(1, 2);
                v.legacy_pal = rng.chance(1, 2);
                v.cel_order = rng.chance(1, 2);
                v.split = rng.chance(1, 2);
                v
            };
            let bytes = encode(&compile_with(&sp, &mut rng, &v, &palprog)).0;
            if j % 2 == 1 {
                // a load that fails (the same encoding cut short / with a damaged tail) right before, on the same thread:
                // what an encoding loads as does not depend on what was loaded before it
                let cut = &bytes[..bytes.len() * 3 / 4];
                let mut damaged = bytes.clone();
                let n = damaged.len();
                for q in 0..(n / 16).max(1) {
                    damaged[n - 1 - q * 3 % (n / 2).max(1)] ^= 0xa5;
                }
                let failed = load(cut).is_err() as u64 + guarded(|| load(&damaged).is_err()).unwrap_or(true) as u64;
                res.count("failing_loads_before_an_encoding", failed);
            }
            res.count(&format!("choice:{}", if v.describe().contains('+') { "combined".to_string() } else { v.describe() }), 1);
            res.count("encodings", 1);
            match load(&bytes) {
                Err(e) => {
                    res.violations.push(
                        Violation::new(format!("load-differs|{}|{}", v.describe(), err_sig(&e)), format!("encoding with neutral choices [{}] fails to load ({}), baseline loads", v.describe(), e))
                            .with_input(&bytes)
                            .with_extra(json!({"model": sprite_summary(&sp), "variation": v.describe()})),
                    );
                }
                Ok(a) => {
                    let o = observe(&a, &opts);
                    res.leaves += exp.leaves();
                    if let Some(d) = diff(&o, &base) {
                        res.violations.push(
                            Violation::new(format!("observation-differs|{}|{}", v.describe(), normalise_digits(&d.path)), format!("neutral choices [{}] changed the observation: {} (second value = baseline encoding)", v.describe(), d))
                                .with_input(&bytes)
                                .with_extra(json!({"model": sprite_summary(&sp), "variation": v.describe(), "path": d.path})),
                        );
                    }
                }
            }
        }
        if i == 0 {
            res.sample = Some(json!({"case": i, "model": sprite_summary(&sp), "encodings": k + 1, "baseline_len": base_bytes.len()}));
        }
        res
    });
    // ---- frames holding 65534 .. 70000 chunks: every spelling of the chunk count the format allows ---------------
    let mut sum = sum;
    let many = run_stage(ctx, "many-chunk-frames", ctx.tier.pick(10u64, 60u64), |i| {
        use crate::model::CountStyle;
        let mut rng = Rng::derive(ctx.seed, "C07-many", i);
        let mut cfg = GenCfg::tiny();
        cfg.max_frames = 3;
        let (sp, palprog) = gen::gen_sprite(&mut rng, &cfg);
        let mut res = CaseResult::ok(gen::features(&sp) ^ i, 0, "many-chunk-frame");
        let o2 = ObsOpts::full();
        let exp = expect(&sp, &o2);
        let total = [65_534usize, 65_535, 65_536, 65_537, 70_000][(i % 5) as usize];
        let styles: &[CountStyle] = if total <= 0xFFFF { &[CountStyle::Both, CountStyle::OldOnly, CountStyle::NewOnly] } else { &[CountStyle::NewOnly] };
        for (k, st) in styles.iter().enumerate() {
            let mut spec = compile_with(&sp, &mut rng, &Variation::none(), &palprog);
            let f = if (i / 5 + k as u64) % 2 == 0 { 0 } else { spec.frames.len() - 1 };
            crate::program::pad_frame(&mut spec, f, total, 0, &mut rng);
            spec.frames[f].count_style = *st;
            let bytes = encode(&spec).0;
            res.count("encodings", 1);
            res.count(&format!("many_chunks:{}:{:?}", total, st), 1);
            match load(&bytes) {
                Err(e) => res.violations.push(Violation::new(format!("load-differs|many-chunks:{:?}|{}", st, err_sig(&e)), format!("frame {} padded to {} chunks with ignorable chunks (count spelled {:?}) fails to load: {}", f, total, st, e)).with_input(&bytes)),
                Ok(a) => {
                    let o = observe(&a, &o2);
                    res.leaves += exp.leaves();
                    if let Some(d) = diff(&o, &exp) {
                        res.violations.push(Violation::new(format!("observation-differs|many-chunks:{:?}|{}", st, normalise_digits(&d.path)), format!("frame {} padded to {} chunks with ignorable chunks (count spelled {:?}) changed the observation: {}", f, total, st, d)).with_input(&bytes));
                    }
                }
            }
        }
        res
    });
    sum.merge(many);
    // ---- multi-megabyte cels of one flat colour: deflate ratios near the format's maximum (~1030:1) ------------------
    let flat = run_stage(ctx, "large-flat-cels", ctx.tier.pick(3u64, 12u64), |i| {
        use crate::model::*;
        let mut rng = Rng::derive(ctx.seed, "C07-flat", i);
        let fmt = [Fmt::Rgba, Fmt::Gray, Fmt::Rgba][(i % 3) as usize];
        let (w, h) = [(2048u16, 1024u16), (4000, 1500), (1500, 1000), (3000, 700)][(i % 4) as usize];
        let mut sp = Sprite::blank(w, h, fmt, 1);
        sp.layers.push(LayerM::image("flat"));
        let one: Vec<u8> = match fmt {
            Fmt::Rgba => vec![rng.u8(), rng.u8(), rng.u8(), 255],
            _ => vec![rng.u8(), 255],
        };
        let pixels: Vec<u8> = one.iter().cycle().take(w as usize * h as usize * one.len()).cloned().collect();
        sp.cels.insert((0, 0), CelM { x: 0, y: 0, opacity: 255, content: CelContentM::Image { w, h, pixels }, ud: None });
        let mut res = CaseResult::ok(gen::features(&sp) ^ i, 0, "large-flat-cel");
        for st in [Storage::Raw, Storage::Zlib(0), Storage::Zlib(1), Storage::Zlib(6), Storage::Zlib(9), Storage::Stored(65_535)] {
            let mut v = Variation::none();
            v.default_storage = st.clone();
            let bytes = encode(&compile_with(&sp, &mut rng, &v, &crate::program::PaletteProgram::Auto)).0;
            res.count("encodings", 1);
            res.count("large_flat_cel_file_bytes", bytes.len() as u64);
            match load(&bytes) {
                Err(e) => res.violations.push(Violation::new(format!("load-differs|storage|{}", err_sig(&e)), format!("{}x{} flat-colour cel stored as {:?} ({} file bytes) fails to load: {}", w, h, st, bytes.len(), e)).with_input(&bytes[..bytes.len().min(4096)])),
                Ok(a) => {
                    let c = a.cel(0, 0);
                    let img = c.image();
                    let want: [u8; 4] = if fmt == Fmt::Rgba { [one[0], one[1], one[2], one[3]] } else { [one[0], one[0], one[0], one[1]] };
                    let uniform = img.pixels().all(|p| p.0 == want);
                    if !uniform || c.is_empty() || c.top_left() != (0, 0) || img.width() != w as u32 || img.height() != h as u32 {
                        res.violations.push(Violation::new("observation-differs|storage|large-flat-cel", format!("{}x{} flat-colour cel stored as {:?}: image not the stored colour everywhere (uniform {}, empty {}, top_left {:?})", w, h, st, uniform, c.is_empty(), c.top_left())));
                    }
                    res.leaves += w as u64 * h as u64;
                }
            }
        }
        res
    });
    sum.merge(flat);
    finish(
        ctx,
        sum,
        Finish {
            rule: "each PRNG-generated model is encoded under k+1 vectors of neutral choices (baseline; each of the 9 choices alone: storage raw/zlib 0-9/stored blocks, chunk-count field, ignorable chunks in any gap, junk in unused header/layer/cel/tag/slice fields, zero pixel-ratio component, chunk-end padding, trailing bytes, redundant legacy palette, permuted cel chunks; random combinations; all at once); whole-API observations (structure, cels, cel images, frame images, tileset images, tilemaps) must be equal to the baseline's and to the model's expectation; distinct = model feature hash".into(),
            coverage_extra: json!({"encodings_per_model": k + 1}),
            assumptions: vec!["the header's 'layer opacity valid' bit is cleared (with junk opacity bytes) only for models whose layers are all opaque - then, and only then, the byte is an unused field; pixel ratio a:b with a=b>1 is never generated (the crate refuses 2:2)".into()],
            exhaustive: false,
            min_evaluations: 100,
        },
    )
}
