//! C02 — frame image = bottom-to-top composition of visible layers.
//! C06 — cel pixels decode correctly (RGBA / gray / indexed).
//! Both: reference renderer over the model vs Frame::image / Cel::image.

use crate::common::*;
use crate::gen::{self, GenCfg};
use crate::model::*;
use crate::observe::ObsOpts;
use crate::program::{PaletteProgram, Variation};
use crate::rng::Rng;
use crate::util::*;
use serde_json::json;
use std::collections::BTreeMap;

pub fn run_c02(ctx: &Ctx) -> i32 {
    let n = ctx.tier.pick(30_000u64, 400_000u64);
    let mut opts = ObsOpts::structure_only();
    opts.structure = false;
    opts.frame_images = true;
    let sum = run_cases(ctx, n, |i| {
        let mut rng = Rng::derive(ctx.seed, "C02", i);
        let mut cfg = GenCfg::small();
        cfg.attrs = false;
        cfg.max_layers = 12;
        cfg.cel_density = 6;
        cfg.extreme_cels = true;
        cfg.big = true;
        cfg.aligned_tilemaps = false;
        cfg.flat = true;
        cfg.extremes = false;
        // link chunks with x / y / opacity of their own (a linked cel renders like its target), the background flag
        // on layers other than the lowest, visible pixels in tile 0
        cfg.link_junk = i % 3 == 0;
        cfg.bg_any = i % 4 == 1;
        cfg.nonblank_tile0 = i % 5 == 2;
        if i % 7 == 0 {
            cfg.max_w = 40;
            cfg.max_h = 3;
        }
        if i % 300 == 11 {
            // stacks of more than 255 layers
            cfg.max_layers = 330;
            cfg.max_frames = 2;
            cfg.max_w = 6;
            cfg.max_h = 6;
            cfg.max_cel = 5;
            cfg.big = false;
            cfg.extreme_cels = false;
        }
        if i % 7 == 1 {
            cfg.max_w = 3;
            cfg.max_h = 40;
        }
        let (mut sp, palprog) = gen::gen_sprite(&mut rng, &cfg);
        let mut hidden_cover = 0u64;
        if i % 25 == 13 && sp.fmt != Fmt::Indexed {
            // an all-opaque cel at least as large as the canvas on a Normal layer at opacity 255 - placed exactly on the
            // canvas or slightly off it, at cel opacity 255 or less - and, in the next frame, a link to it whose own chunk
            // fields say "at (0,0), opacity 255". What lies below must show wherever (and as much as) blending says.
            let (w, h) = (sp.width.min(12), sp.height.min(12));
            sp.width = w;
            sp.height = h;
            if sp.durations.len() < 2 {
                sp.durations.push(90);
            }
            let mut top = LayerM::image("cover");
            top.blend = 0;
            top.opacity = 255;
            top.level = 0;
            // one time in three the covering layer is HIDDEN: then it covers nothing, whatever lies below shows
            if rng.chance(1, 3) {
                top.flags &= !1;
                hidden_cover = 1;
            }
            sp.layers.push(top);
            let l = (sp.layers.len() - 1) as u16;
            let (cw, ch) = (w + rng.range(0, 2) as u16, h + rng.range(0, 2) as u16);
            let bpp = sp.fmt.bpp();
            let mut px = rng.bytes(cw as usize * ch as usize * bpp);
            for p in px.chunks_mut(bpp) {
                p[bpp - 1] = 255;
            }
            let (x, y) = *rng.pick(&[(0i16, 0i16), (0, 0), (1, 0), (0, -1), (-1, -1), (w as i16 / 2, 0)]);
            let op = *rng.pick(&[255u8, 255, 128, 1, 0]);
            // (a hidden cover is, half the time, the perfect cover: exactly the canvas, at the origin, fully opaque)
            let perfect = hidden_cover == 1 && rng.chance(1, 2);
            let (cw, ch, x, y, op, px) = if perfect { (w, h, 0, 0, 255, px[..w as usize * h as usize * bpp].to_vec()) } else { (cw, ch, x, y, op, px) };
            sp.cels.insert((0, l), CelM { x, y, opacity: op, content: CelContentM::Image { w: cw, h: ch, pixels: px }, ud: None });
            sp.cels.insert((1, l), CelM { x: 0, y: 0, opacity: 255, content: CelContentM::Link(0), ud: None });
            for f in 2..sp.durations.len() as u16 {
                sp.cels.remove(&(f, l));
            }
        }
        let sp = sp;
        let mut res = CaseResult::ok(gen::features(&sp), 0, "ok");
        let visible = sp.visible();
        let stacked: u64 = (0..sp.durations.len()).map(|f| (0..sp.layers.len()).filter(|l| visible[*l] && sp.cels.contains_key(&(f as u16, *l as u16))).count() as u64).max().unwrap_or(0);
        res.count(&format!("max_stack_depth_{:02}", stacked.min(12)), 1);
        res.count("frames_rendered", sp.durations.len() as u64);
        res.count("hidden_covering_cels", hidden_cover);
        res.count("cels", sp.cels.len() as u64);
        res.count("hidden_layers_with_cels", (0..sp.layers.len()).filter(|l| !visible[*l] && sp.cels.keys().any(|k| k.1 == *l as u16)).count() as u64);
        res.count("offcanvas_or_partial_cels", sp.cels.values().filter(|c| c.x < 0 || c.y < 0 || c.x as i32 + 1 > sp.width as i32 || c.y as i32 + 1 > sp.height as i32).count() as u64);
        // encoding 1: storage order = layer order; encoding 2: cel chunks permuted
        for (k, v) in [Variation::none(), Variation::only(8)].iter().enumerate() {
            let (_b, leaves, viol) = roundtrip(&sp, &palprog, &mut rng, v, &opts, if k == 0 { "frame-image" } else { "frame-image-permuted-cels" });
            res.leaves += leaves;
            if let Some(v) = viol {
                res.outcomes = vec!["violation".into()];
                res.violations.push(v);
            }
        }
        if i < 6 {
            // "using the layer's blend mode": six two-layer sprites that push all 65 536 (backdrop, source) channel pairs
            // through each of the 19 modes (opaque pair first, then random alpha / opacity pairs) - C03 owns the blend
            // arithmetic and scans it far more widely; this keeps C02's own verdict from resting on random pixel values
            let mut prng = Rng::derive(ctx.seed, "C02-plane", i);
            let (ba, sa, lo, co) = if i == 0 { (255, 255, 255, 255) } else { (prng.u8() | 1, prng.u8() | 1, prng.opacity(), prng.opacity()) };
            let plane = crate::blendscan::plane_a(ba, sa, lo, co);
            match crate::blendscan::render_plane(&plane, &crate::blendscan::ALL_MODES) {
                Ok(r) => res.violations.extend(crate::blendscan::check_oracle(&plane, &crate::blendscan::ALL_MODES, &r)),
                Err(v) => res.violations.push(v),
            }
            res.count("blend_mode_planes_all_channel_pairs", 1);
            res.leaves += 65_536 * 19;
        }
        if i == 0 {
            res.sample = Some(json!({"case": i, "model": sprite_summary(&sp)}));
        }
        res
    });
    finish(
        ctx,
        sum,
        Finish {
            rule: "PRNG-generated layer stacks (1-12 layers, all 19 blend modes, opacities on layer and cel, hidden layers and hidden groups, linked and tilemap cels, cel rectangles on / partly off / fully off canvas incl. i16 extremes, three pixel formats); every frame rendered via Frame::image and compared per pixel with the reference renderer; each model encoded twice (cel chunks in layer order / permuted); distinct = model feature hash".into(),
            coverage_extra: json!({"encodings_per_model": 2}),
            assumptions: vec!["reference renderer + blend oracle validated against 39 Aseprite-rendered frame images (./check selfcheck)".into()],
            exhaustive: false,
            min_evaluations: 100,
        },
    )
}

/// A stack with more layers than the cel chunk's 16-bit layer field can name. Layers from 65536 on can
/// never have a cel: their slots are absent whatever the low layers hold. Returns the number of extra layers.
pub fn wide_stack(rng: &mut Rng) -> (Sprite, usize) {
    let extra = *rng.pick(&[1usize, 2, 7, 300]);
    let fmt = *rng.pick(&[Fmt::Rgba, Fmt::Gray]);
    let mut sp = Sprite::blank(3, 2, fmt, 2);
    for l in 0..65_536 + extra {
        let mut ly = LayerM::image("");
        // everything hidden except a few layers at either end, so that frames stay cheap to reference-render
        ly.flags = if l < 2 || l >= 65_534 { 3 } else { 2 };
        ly.opacity = if l % 2 == 0 { 255 } else { 200 };
        sp.layers.push(ly);
    }
    let mut celled: Vec<u16> = (0..(extra.min(8) + 1) as u16).collect();
    celled.extend([255u16, 256, 32_767, 32_768, 65_534, 65_535]);
    for l in celled {
        for f in 0..2u16 {
            if f == 0 || rng.chance(1, 2) {
                let px = gen::gen_pixels(rng, &sp, 2);
                sp.cels.insert((f, l), CelM { x: (l % 2) as i16, y: f as i16, opacity: 128 + (l % 100) as u8, content: CelContentM::Image { w: 2, h: 1, pixels: px }, ud: Some(UserDataM { text: Some(format!("f{} l{}", f, l)), color: None }) });
            }
        }
    }
    (sp, extra)
}

/// dedicated C06 models
fn c06_model(rng: &mut Rng, i: u64) -> (Sprite, PaletteProgram, &'static str) {
    match i % 4 {
        1 => {
            // grayscale sweep: all 256 values x an alpha chosen per case
            let a = [0u8, 1, 2, 63, 64, 127, 128, 129, 191, 192, 254, 255][(i / 4 % 12) as usize];
            let mut sp = Sprite::blank(16, 16, Fmt::Gray, 1);
            let mut l = LayerM::image("g");
            l.opacity = rng.opacity();
            sp.layers.push(l);
            let mut px = Vec::with_capacity(512);
            for v in 0..256u32 {
                px.push(v as u8);
                px.push(if v % 3 == 0 { a } else { a.wrapping_add((v * 7) as u8) });
            }
            sp.cels.insert((0, 0), CelM { x: 0, y: 0, opacity: rng.opacity(), content: CelContentM::Image { w: 16, h: 16, pixels: px }, ud: None });
            (sp, PaletteProgram::Auto, "gray-sweep")
        }
        2 => {
            // indexed: every transparent-index value, background / non-background layers
            let t = (i / 4 % 256) as u8;
            let bg = (i / 1024) % 2 == 0;
            let mut sp = Sprite::blank(16, 16, Fmt::Indexed, 2);
            sp.transparent_index = t;
            let mut pal = BTreeMap::new();
            let first = if (i / 2048) % 2 == 0 { 0u32 } else { (t as u32).saturating_sub(rng.below(4) as u32) };
            let n = 256 - first;
            for k in 0..n {
                let a = if rng.chance(1, 3) { *rng.pick(&[0u8, 1, 128, 254]) } else { 255 };
                pal.insert(first + k, PalEntryM { rgba: [rng.u8(), rng.u8(), rng.u8(), a], name: None });
            }
            sp.palette = Some(pal);
            let mut l0 = LayerM::image("bottom");
            if bg {
                l0.flags |= LF_BACKGROUND;
            }
            sp.layers.push(l0);
            let mut l1 = LayerM::image("top");
            l1.opacity = rng.opacity();
            sp.layers.push(l1);
            for l in 0..2u16 {
                // all indices present in the palette, the transparent one several times
                let mut px: Vec<u8> = (0..256u32).map(|k| (first + k % n) as u8).collect();
                for k in 0..16 {
                    px[k * 16 + (k % 16)] = if t as u32 >= first { t } else { px[k] };
                }
                rng.shuffle(&mut px);
                sp.cels.insert((0, l), CelM { x: 0, y: 0, opacity: if l == 0 { 255 } else { rng.opacity() }, content: CelContentM::Image { w: 16, h: 16, pixels: px }, ud: None });
            }
            sp.cels.insert((1, 0), CelM { x: 0, y: 0, opacity: 255, content: CelContentM::Link(0), ud: None });
            (sp, PaletteProgram::Auto, "indexed-transparent-sweep")
        }
        0 if i % 4000 == 8 => {
            let (sp, _) = wide_stack(rng);
            (sp, PaletteProgram::Auto, "layers-beyond-16-bits")
        }
        0 if i % 100 == 4 => {
            // > 256 frames: links whose target frame index does not fit in a byte
            let nf = rng.range(258, 330) as usize;
            let fmt = *rng.pick(&[Fmt::Rgba, Fmt::Gray]);
            let mut sp = Sprite::blank(4, 3, fmt, nf);
            let nl = rng.range(1, 3) as usize;
            for l in 0..nl {
                let mut ly = LayerM::image(&format!("l{}", l));
                ly.opacity = rng.opacity();
                sp.layers.push(ly);
            }
            for l in 0..nl as u16 {
                for f in [0u16, 1, 255, 256, 257, (nf - 1) as u16] {
                    if rng.chance(2, 3) {
                        let px = gen::gen_pixels(rng, &sp, 2);
                        sp.cels.insert((f, l), CelM { x: (f % 3) as i16, y: (f % 2) as i16, opacity: rng.opacity(), content: CelContentM::Image { w: 2, h: 1, pixels: px }, ud: None });
                    }
                }
                let raw: Vec<u16> = sp.cels.keys().filter(|k| k.1 == l).map(|k| k.0).collect();
                if raw.is_empty() {
                    continue;
                }
                for _ in 0..6 {
                    let from = rng.below(nf as u64) as u16;
                    let to = *rng.pick(&raw);
                    if from != to && !sp.cels.contains_key(&(from, l)) {
                        let t = sp.cels[&(to, l)].clone();
                        sp.cels.insert((from, l), CelM { x: t.x, y: t.y, opacity: t.opacity, content: CelContentM::Link(to), ud: None });
                    }
                }
            }
            (sp, PaletteProgram::Auto, "many-frames-links")
        }
        3 if i % 20 == 3 => {
            // a linked cel whose target is a tilemap cel (legal: Aseprite links cels on tilemap layers too)
            let mut cfg = GenCfg::small();
            cfg.attrs = false;
            cfg.extremes = false;
            cfg.links = false;
            cfg.max_layers = 4;
            cfg.max_frames = 3;
            for _ in 0..60 {
                let (mut sp, pp) = gen::gen_sprite(rng, &cfg);
                let tm: Vec<(u16, u16)> = sp.cels.iter().filter(|(_, c)| matches!(c.content, CelContentM::Tilemap { .. })).map(|(k, _)| *k).collect();
                if let Some((f, l)) = tm.first().cloned() {
                    // put the link into a new last frame
                    let nf = sp.durations.len() as u16;
                    sp.durations.push(123);
                    let t = sp.cels[&(f, l)].clone();
                    sp.cels.insert((nf, l), CelM { x: t.x, y: t.y, opacity: t.opacity, content: CelContentM::Link(f), ud: None });
                    return (sp, pp, "link-to-tilemap");
                }
            }
            let (sp, pp) = gen::gen_sprite(rng, &cfg);
            (sp, pp, "random")
        }
        _ => {
            let mut cfg = GenCfg::small();
            cfg.attrs = false;
            cfg.extremes = false;
            cfg.max_layers = 5;
            cfg.max_frames = 6;
            cfg.extreme_cels = true;
            cfg.big = true;
            // sixth round: a link chunk's own x / y / opacity differ from its target's - the linked cel still renders
            // exactly like the cel it links to
            cfg.link_junk = i % 2 == 0;
            let (sp, pp) = gen::gen_sprite(rng, &cfg);
            (sp, pp, if cfg.link_junk { "random-link-own-fields" } else { "random" })
        }
    }
}

pub fn run_c06(ctx: &Ctx) -> i32 {
    let n = ctx.tier.pick(60_000u64, 600_000u64);
    let mut opts = ObsOpts::structure_only();
    opts.structure = false;
    opts.cels = true;
    opts.cel_images = true;
    let sum = run_cases(ctx, n, |i| {
        let mut rng = Rng::derive(ctx.seed, "C06", i);
        let (sp, palprog, kind) = c06_model(&mut rng, i);
        let mut res = CaseResult::ok(gen::features(&sp), 0, &format!("ok:{}", kind));
        // raw (type 0), zlib (type 2) and mixed storage
        let mut v = Variation::none();
        match i % 3 {
            0 => v.default_storage = Storage::Raw,
            1 => v.default_storage = Storage::Zlib(6),
            _ => v.storage = true,
        }
        // the palette in several chunks (a stale sub-range first, then the range in parts)
        if i % 5 == 2 {
            v.split = true;
        }
        // cel chunks of a frame in any order (the format does not prescribe one)
        if i % 5 >= 3 {
            v.cel_order = true;
            res.count("cel_chunks_permuted", 1);
        }
        res.count(&format!("storage:{}", ["raw", "zlib", "mixed"][(i % 3) as usize]), 1);
        res.count(&format!("format:{}", sp.fmt.name()), 1);
        res.count("cels", sp.cels.len() as u64);
        res.count("absent_cel_slots", (sp.durations.len() * sp.layers.len() - sp.cels.len()) as u64);
        res.count("linked_cels", sp.cels.values().filter(|c| matches!(c.content, CelContentM::Link(_))).count() as u64);
        if sp.fmt == Fmt::Indexed {
            res.count(&format!("transparent_index_bucket_{:03}", sp.transparent_index / 32 * 32), 1);
            res.count("background_layers", sp.layers.iter().filter(|l| l.is_background()).count() as u64);
        }
        let (_b, leaves, viol) = roundtrip(&sp, &palprog, &mut rng, &v, &opts, "cel");
        res.leaves += leaves;
        if let Some(v) = viol {
            res.outcomes = vec!["violation".into()];
            res.violations.push(v);
        }
        if i < 3 {
            res.sample = Some(json!({"case": i, "kind": kind, "model": sprite_summary(&sp)}));
        }
        res
    });
    finish(
        ctx,
        sum,
        Finish {
            rule: "per case one sprite: random (all formats), grayscale sweep (all 256 values x alpha lattice), or indexed sweep (every transparent-index value 0..255 x background/non-background x palettes starting at/above 0 with alpha<255 entries); raw / zlib / mixed cel storage; every (frame, layer) slot observed via Cel::{image,is_empty,top_left,is_tilemap,frame,layer} incl. absent and linked cels; distinct = model feature hash".into(),
            coverage_extra: json!({}),
            assumptions: vec!["link cels carry the same x/y/opacity as their target (as Aseprite writes them)".into()],
            exhaustive: false,
            min_evaluations: 100,
        },
    )
}
