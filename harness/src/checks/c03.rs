//! C03 — blend modes reproduce Aseprite's arithmetic bit for bit.
//! C17 — mode-independent alpha and identity laws.
//! Both ride on the enumerations of `blendscan`, rendered through Frame::image.

use crate::blendscan::*;
use crate::common::*;
use serde_json::json;

fn run_scan(ctx: &Ctx, laws: bool) -> i32 {
    let selfcheck = if laws {
        json!({"note": "C17 uses no reference implementation; laws are evaluated on observed pixels only"})
    } else {
        match oracle_selfcheck(ctx) {
            Ok(v) => v,
            Err(e) => {
                println!("INCONCLUSIVE property={} reason=oracle self-check failed: {}", ctx.prop, e);
                return 2;
            }
        }
    };
    let jobs = schedule(ctx.tier, ctx.seed);
    let njobs = jobs.len() as u64;
    let sum = run_cases(ctx, njobs, |i| {
        let job = &jobs[i as usize];
        if let Job::F { p } = job {
            // stacks of several blended cels: oracle fold (C03 only; the laws are two-layer statements)
            let mut res = CaseResult::default();
            res.nontrivial = true;
            res.outcomes.push("plane:F-stacks".into());
            let stack = stack_f(ctx.seed, *p);
            if laws {
                // the laws on stacks: alpha equals the all-Normal stack's alpha; a zero-opacity copy of a layer is a no-op
                res.feature = crate::rng::mix(crate::rng::hash_str(&stack.label)) | 1;
                let npx = stack.w as u64 * stack.h as u64;
                res.leaves = npx * stack.layers.len() as u64;
                res.count("stack_renderings_compared", stack.layers.len() as u64 + 1);
                res.violations = check_stack_laws(&stack);
                return res;
            }
            res.feature = crate::rng::mix(crate::rng::hash_str(&stack.label)) | 1;
            let npx = stack.w as u64 * stack.h as u64;
            res.leaves = npx;
            res.count("pixels_rendered_and_compared", npx * (stack.layers.len() as u64 - 1));
            res.violations = check_stack(&stack);
            return res;
        }
        let (plane, modes) = job_plane(job, ctx.seed);
        let npx = plane.back.len() as u64;
        let mut res = CaseResult::default();
        res.nontrivial = true;
        res.feature = crate::rng::mix(crate::rng::hash_str(&plane.label) ^ ((plane.lo as u64) << 8 | plane.co as u64).wrapping_mul(0x9E3779B97F4A7C15));
        res.outcomes.push(format!("plane:{}", plane.family));
        match render_plane(&plane, modes) {
            Ok(rendered) => {
                let v = if laws { check_laws(&plane, modes, &rendered) } else { check_oracle(&plane, modes, &rendered) };
                res.leaves = npx * modes.len() as u64;
                res.count("pixels_rendered_and_compared", npx * modes.len() as u64);
                if plane.family == "A-channel-space" {
                    // three (b,s) pairs ride in each pixel; Normal + 14 separable modes
                    res.count("separable_channel_cases", npx * 3 * 15);
                }
                res.violations = v;
            }
            Err(v) => res.violations.push(v),
        }
        if i == 0 || i == njobs - 1 || i == njobs / 2 {
            res.sample = Some(json!({"plane": plane.label, "family": plane.family, "lo": plane.lo, "co": plane.co, "modes": modes.len(), "first_pixel_pair": {"backdrop": crate::blendref::unpack(plane.back[0]), "source": crate::blendref::unpack(plane.src[0])}, "pixels": npx}));
        }
        res
    });
    let exhaustive_a = ctx.tier == Tier::Thorough;
    finish(
        ctx,
        sum,
        Finish {
            rule: if laws {
                "planes of (backdrop, source) pixel pairs x (layer opacity, cel opacity) rendered through Frame::image in Normal and every other mode; laws checked per pixel on the observed results; distinct = distinct (plane, opacity pair); families: A = all 65536 channel pairs per (Ba,Sa) (quick: 24x24 alpha lattice, thorough: all 256x256), B = all 256x256 opacity pairs x 64 adversarial pairs, C/C2 = HSL boundary lattice and tie-heavy samples, D = random, Z = zero-opacity / alpha-0 planes".into()
            } else {
                "planes of (backdrop, source) pixel pairs x (layer opacity, cel opacity) rendered through Frame::image and compared per pixel with an independent C++ transcription of Aseprite's blend_funcs.cpp; distinct = distinct (plane, opacity pair); families as in DESIGN.md C03 [A]-[D]".into()
            },
            coverage_extra: json!({"oracle_selfcheck": selfcheck, "family_A_exhaustive_over_256x256_alpha_pairs": exhaustive_a, "family_B_exhaustive_over_opacity_pairs": true, "planes_scheduled": njobs}),
            assumptions: if laws {
                vec!["'opacity' in the laws is the exactly rounded 8-bit product of layer and cel opacity".into()]
            } else {
                vec!["the C++ oracle is a faithful transcription of Aseprite's blend_funcs.cpp: validated on every run against the 20 Aseprite-rendered blend_*.png references (0 mismatching pixels required)".into(), "results are compared bit for bit, the colour channels of fully transparent pixels included; only in family S (sparse source cel hanging over the canvas edge) do alpha-0 results compare equal regardless of RGB, because the plane's source is a stand-in where the cel does not reach".into()]
            },
            exhaustive: false,
            min_evaluations: 1000,
        },
    )
}

pub fn run_c03(ctx: &Ctx) -> i32 {
    run_scan(ctx, false)
}

pub fn run_c17(ctx: &Ctx) -> i32 {
    run_scan(ctx, true)
}
