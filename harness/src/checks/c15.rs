//! C15 — documented-unsupported features are refused, not silently ignored.

use crate::common::*;
use crate::encode::{encode, FieldMap};
use crate::gen::{self, GenCfg};
use crate::model::*;
use crate::program::{compile_with, Variation};
use crate::rng::Rng;
use crate::util::*;
use serde_json::json;

fn patch(bytes: &mut [u8], map: &FieldMap, suffix: &str, which: u64, value: u64) -> Option<(String, usize)> {
    let fields: Vec<_> = map.fields.iter().filter(|f| f.name.ends_with(suffix)).collect();
    if fields.is_empty() {
        return None;
    }
    // first / middle / last occurrence
    let idx = match which % 3 {
        0 => 0,
        1 => fields.len() / 2,
        _ => fields.len() - 1,
    };
    let f = fields[idx];
    for k in 0..f.width {
        bytes[f.off + k] = (value >> (8 * k)) as u8;
    }
    Some((f.name.clone(), idx))
}

const U16_BOUNDARY: [u16; 16] = [0, 1, 2, 3, 4, 7, 9, 15, 17, 24, 31, 33, 64, 0x7fff, 0x8000, 0xffff];

pub fn run(ctx: &Ctx) -> i32 {
    let n = ctx.tier.pick(120_000u64, 2_000_000u64);
    let sum = run_cases(ctx, n, |i| {
        let mut rng = Rng::derive(ctx.seed, "C15", i);
        let mut cfg = GenCfg::tiny();
        cfg.max_layers = 5;
        cfg.max_frames = 3;
        let switch = i % 11;
        // make sure the entity the switch lives on exists
        let (mut sp, palprog) = loop {
            let (sp, pp) = gen::gen_sprite(&mut rng, &cfg);
            let ok = match switch {
                3 => sp.cels.values().any(|c| matches!(c.content, CelContentM::Tilemap { .. })),
                4 => !sp.tilesets.is_empty(),
                8 => !sp.cels.is_empty(),
                9 => !sp.tags.is_empty(),
                _ => true,
            };
            if ok {
                break (sp, pp);
            }
        };
        if switch == 9 && i % 3 == 0 {
            // hundreds of tags: the unknown direction may sit beyond index 255
            let k = rng.range(257, 400) as usize;
            while sp.tags.len() < k {
                let j = sp.tags.len();
                sp.tags.push(TagM { from: 0, to: 0, dir: (j % 3) as u8, repeat: 0, color: 0, name: String::new(), ud: None });
            }
            for t in sp.tags.iter_mut() {
                t.ud = None;
            }
        }
        let mut v = Variation::none();
        v.storage = rng.chance(1, 2);
        v.ignorable = rng.chance(1, 3);
        let which = rng.below(3);
        let mut res = CaseResult::default();
        res.nontrivial = true;
        let mut desc = String::new();
        let bytes: Vec<u8> = match switch {
            0 => {
                // pixel aspect ratio a:b with a,b >= 1, a != b
                let (a, b) = loop {
                    let a = *rng.pick(&[1u8, 2, 3, 4, 127, 128, 255]);
                    let b = *rng.pick(&[1u8, 2, 3, 5, 127, 254, 255]);
                    if a != b {
                        break (a, b);
                    }
                };
                let mut spec = compile_with(&sp, &mut rng, &v, &palprog);
                spec.header.pixel_w = a;
                spec.header.pixel_h = b;
                desc = format!("pixel ratio {}:{}", a, b);
                encode(&spec).0
            }
            1 | 2 => {
                // colour profile: ICC type, or the fixed-gamma flag with each profile type
                let (ty, flags, icc) = if switch == 1 {
                    let n = rng.range(0, 64) as usize;
                    (2u16, 0u16, Some(rng.bytes(n)))
                } else {
                    let other_bits = if rng.chance(1, 2) { 0 } else { (rng.u32() as u16) & 0xfffe };
                    (*rng.pick(&[0u16, 1, 2]), 1u16 | other_bits, None)
                };
                let icc = if ty == 2 && icc.is_none() { Some(vec![1, 2, 3]) } else { icc };
                let mut spec = compile_with(&sp, &mut rng, &v, &palprog);
                let fi = rng.usize_below(spec.frames.len());
                let pos = rng.usize_below(spec.frames[fi].chunks.len() + 1);
                spec.frames[fi].chunks.insert(pos, ChunkSpec::ColorProfile { ty, flags, gamma: 0x0001_0000, icc }.into());
                desc = format!("colour profile type {} flags {:#x} in frame {} at chunk {}", ty, flags, fi, pos);
                encode(&spec).0
            }
            3 => {
                let bits = *rng.pick(&[0u16, 8, 16, 31, 33, 64, 1, 0xffff]);
                let (mut b, map) = encode(&compile_with(&sp, &mut rng, &v, &palprog));
                let p = patch(&mut b, &map, ":cel.bits", which, bits as u64);
                desc = format!("bits per tile {} at {:?}", bits, p);
                b
            }
            4 if i % 33 == 4 => {
                // a second tileset chunk that repeats an id, this time without embedded pixels (it supersedes the first)
                let k = rng.usize_below(sp.tilesets.len());
                let mut spec = compile_with(&sp, &mut rng, &v, &palprog);
                let mut dup = sp.tilesets[k].clone();
                let link = rng.chance(1, 2);
                dup.flags = (dup.flags & TS_ZERO_EMPTY) | if link { TS_LINK } else { 0 };
                dup.pixels = vec![];
                if link {
                    dup.ext = Some((rng.u32(), rng.u32()));
                }
                // after the last tileset chunk of frame 0, or at the start of the last frame
                let fi = if rng.chance(1, 2) { 0 } else { spec.frames.len() - 1 };
                let pos = if fi == 0 { spec.frames[0].chunks.iter().rposition(|c| matches!(c.spec, ChunkSpec::Tileset { .. })).map(|p| p + 1).unwrap_or(0) } else { 0 };
                let next_is_ud = matches!(spec.frames[fi].chunks.get(pos).map(|c| &c.spec), Some(ChunkSpec::UserData(_)));
                let pos = if next_is_ud { spec.frames[fi].chunks.len() } else { pos };
                spec.frames[fi].chunks.insert(pos, ChunkSpec::Tileset { t: dup, level: 6, reserved: [0; 14] }.into());
                desc = format!("tileset id {} defined a second time (frame {}) without embedded pixels (external link: {})", sp.tilesets[k].id, fi, link);
                encode(&spec).0
            }
            4 => {
                // tileset without embedded pixels (with / without external link; used or unused by a layer)
                let k = rng.usize_below(sp.tilesets.len());
                let link = rng.chance(1, 2);
                let keep_zero = sp.tilesets[k].flags & TS_ZERO_EMPTY;
                sp.tilesets[k].flags = keep_zero | if link { TS_LINK } else { 0 };
                if link {
                    sp.tilesets[k].ext = Some((rng.u32(), rng.u32()));
                }
                let used = sp.layers.iter().any(|l| l.kind == LayerKind::Tilemap(sp.tilesets[k].id));
                desc = format!("tileset {} without embedded pixels (external link: {}, used by a layer: {})", sp.tilesets[k].id, link, used);
                encode(&compile_with(&sp, &mut rng, &v, &palprog)).0
            }
            5 => {
                let d = loop {
                    let d = if rng.chance(1, 2) { *rng.pick(&U16_BOUNDARY) } else { rng.u32() as u16 };
                    if d != 8 && d != 16 && d != 32 {
                        break d;
                    }
                };
                let (mut b, map) = encode(&compile_with(&sp, &mut rng, &v, &palprog));
                patch(&mut b, &map, "hdr.depth", 0, d as u64);
                desc = format!("colour depth {}", d);
                b
            }
            6 => {
                let t = if rng.chance(1, 2) { *rng.pick(&[3u16, 4, 255, 256, 0x7fff, 0x8000, 0xffff]) } else { rng.range(3, 65535) as u16 };
                let (mut b, map) = encode(&compile_with(&sp, &mut rng, &v, &palprog));
                let p = patch(&mut b, &map, ":layer.type", which, t as u64);
                desc = format!("layer type {} at {:?}", t, p);
                b
            }
            7 => {
                let t = if rng.chance(1, 2) { *rng.pick(&[19u16, 20, 255, 256, 0x7fff, 0x8000, 0xffff]) } else { rng.range(19, 65535) as u16 };
                let (mut b, map) = encode(&compile_with(&sp, &mut rng, &v, &palprog));
                let p = patch(&mut b, &map, ":layer.blend", which, t as u64);
                desc = format!("blend mode {} at {:?}", t, p);
                if rng.chance(1, 3) {
                    // a pre-1.0 style header (bit 0 of the header flags, "layer opacity has a valid value", clear):
                    // the blend mode field is decoded all the same
                    b[14] &= !1;
                    desc.push_str(" (header flag 'layer opacity valid' clear)");
                }
                b
            }
            8 if i % 3 == 2 && sp.layers.iter().any(|l| l.kind == LayerKind::Group) => {
                // the cel of unknown type (or the tilemap cel with other than 32 bits per tile) sits on a GROUP layer
                let g = sp.layers.iter().position(|l| l.kind == LayerKind::Group).unwrap() as u16;
                let mut spec = compile_with(&sp, &mut rng, &v, &palprog);
                let fi = rng.usize_below(spec.frames.len());
                let t = *rng.pick(&[4u16, 7, 255, 0xffff]);
                let bad_bits = rng.chance(1, 3);
                let chunk = if bad_bits {
                    ChunkSpec::Cel { layer: g, c: CelM { x: 0, y: 0, opacity: 255, content: CelContentM::Tilemap { w: 1, h: 1, tiles: vec![0], masks: [0x1fff_ffff, 0x2000_0000, 0x4000_0000, 0x8000_0000] }, ud: None }, storage: Storage::Zlib(6), reserved: [0; 7], cel_type_override: None }
                } else {
                    ChunkSpec::Cel { layer: g, c: CelM { x: 0, y: 0, opacity: 255, content: CelContentM::Image { w: 1, h: 1, pixels: vec![0; sp.fmt.bpp()] }, ud: None }, storage: Storage::Raw, reserved: [0; 7], cel_type_override: Some(t) }
                };
                spec.frames[fi].chunks.push(chunk.into());
                let (mut b, map) = encode(&spec);
                if bad_bits {
                    let fields: Vec<_> = map.fields.iter().filter(|f| f.name.ends_with(":cel.bits")).collect();
                    if let Some(f) = fields.last() {
                        b[f.off] = 16;
                        b[f.off + 1] = 0;
                    }
                }
                desc = format!("{} in a cel chunk addressed to group layer {} (frame {})", if bad_bits { "16 bits per tile".to_string() } else { format!("cel type {}", t) }, g, fi);
                b
            }
            8 => {
                let t = if rng.chance(1, 2) { *rng.pick(&[4u16, 5, 255, 256, 0x7fff, 0x8000, 0xffff]) } else { rng.range(4, 65535) as u16 };
                let (mut b, map) = encode(&compile_with(&sp, &mut rng, &v, &palprog));
                let p = patch(&mut b, &map, ":cel.type", which, t as u64);
                desc = format!("cel type {} at {:?}", t, p);
                b
            }
            9 => {
                let t = if rng.chance(1, 2) { *rng.pick(&[3u8, 4, 127, 128, 255]) } else { rng.range(3, 255) as u8 };
                let (mut b, map) = encode(&compile_with(&sp, &mut rng, &v, &palprog));
                let fields: Vec<_> = map.fields.iter().filter(|f| f.name.ends_with(".dir")).collect();
                // any tag, but favour the last ones when there are many
                let f = if fields.len() > 256 && rng.chance(2, 3) { fields[256 + rng.usize_below(fields.len() - 256)] } else { fields[rng.usize_below(fields.len())] };
                b[f.off] = t;
                desc = format!("animation direction {} at {}", t, f.name);
                b
            }
            _ => {
                // unknown colour profile type is not listed in the property: use ICC again at frame 0 start
                let mut spec = compile_with(&sp, &mut rng, &v, &palprog);
                spec.frames[0].chunks.insert(0, ChunkSpec::ColorProfile { ty: 2, flags: 0, gamma: 0, icc: Some(vec![0; 128]) }.into());
                desc = "ICC profile as first chunk".into();
                encode(&spec).0
            }
        };
        let names = ["pixel-ratio", "icc-profile", "fixed-gamma", "bits-per-tile", "tileset-not-embedded", "colour-depth", "layer-type", "blend-mode", "cel-type", "animation-direction", "icc-profile-first"];
        let name = names[switch as usize];
        res.feature = crate::rng::hash_bytes(&bytes);
        res.outcomes.push(format!("switch:{}", name));
        res.leaves = 1;
        match load(&bytes) {
            Err(e) => res.count(&format!("refused_as:{}", err_variant(&e)), 1),
            Ok(_) => res.violations.push(Violation::new(format!("unsupported-feature-loads|{}", name), format!("file using unsupported feature loaded: {}", desc)).with_input(&bytes).with_extra(json!({"switch": name, "detail": desc, "model": sprite_summary(&sp)}))),
        }
        if i < 11 {
            res.sample = Some(json!({"switch": name, "detail": desc}));
        }
        res
    });
    // ---- the feature sits in a chunk beyond index 65535 of its frame ---------------------------------------------------------
    let mut sum = sum;
    let far = run_stage(ctx, "feature-beyond-chunk-65535", ctx.tier.pick(10u64, 60u64), |i| {
        let mut rng = Rng::derive(ctx.seed, "C15-far", i);
        let mut cfg = GenCfg::tiny();
        cfg.max_layers = 3;
        cfg.max_frames = 2;
        cfg.tilemaps = false;
        let (sp, palprog) = gen::gen_sprite(&mut rng, &cfg);
        let mut spec = compile_with(&sp, &mut rng, &Variation::none(), &palprog);
        let total = [65_535usize, 65_536, 65_537, 70_000][((i / 5 + i) % 4) as usize];
        let switch = i % 5;
        let f = if switch < 2 { 0 } else { spec.frames.len() - 1 };
        crate::program::pad_frame(&mut spec, f, total, 0, &mut rng);
        let nl = sp.layers.len() as u16;
        let (chunk, name): (ChunkSpec, &str) = match switch {
            0 => {
                let mut l = LayerM::image("far");
                l.blend = *rng.pick(&[19u16, 255, 0xffff]);
                (ChunkSpec::Layer { l, junk: LayerJunk { default_w: 0, default_h: 0, r1: 0, r2: 0 } }, "blend-mode")
            }
            1 => (ChunkSpec::Layer { l: LayerM::image("far"), junk: LayerJunk { default_w: 0, default_h: 0, r1: 0, r2: 0 } }, "layer-type"),
            2 => (ChunkSpec::ColorProfile { ty: 2, flags: 0, gamma: 0, icc: Some(vec![1, 2, 3, 4]) }, "icc-profile"),
            3 => (ChunkSpec::ColorProfile { ty: 1, flags: 1, gamma: 0x0001_0000, icc: None }, "fixed-gamma"),
            _ => {
                // a cel of unknown type on a layer that has no cel in this frame yet (else on a fresh top layer)
                let free = (0..nl).find(|l| !sp.cels.contains_key(&(f as u16, *l)) && sp.layers[*l as usize].kind == LayerKind::Image);
                match free {
                    Some(l) => (ChunkSpec::Cel { layer: l, c: CelM { x: 0, y: 0, opacity: 255, content: CelContentM::Image { w: 1, h: 1, pixels: vec![0; sp.fmt.bpp()] }, ud: None }, storage: Storage::Raw, reserved: [0; 7], cel_type_override: Some(*rng.pick(&[4u16, 255, 0xffff])) }, "cel-type"),
                    None => (ChunkSpec::ColorProfile { ty: 2, flags: 0, gamma: 0, icc: Some(vec![9]) }, "icc-profile"),
                }
            }
        };
        spec.frames[f].chunks.push(chunk.into());
        spec.frames[f].count_style = CountStyle::NewOnly;
        let (mut bytes, map) = encode(&spec);
        if switch == 1 {
            let t = *rng.pick(&[3u16, 255, 0xffff]);
            let fl: Vec<_> = map.fields.iter().filter(|x| x.name.ends_with(":layer.type")).collect();
            let fld = fl[fl.len() - 1];
            bytes[fld.off] = t as u8;
            bytes[fld.off + 1] = (t >> 8) as u8;
        }
        let mut res = CaseResult::ok(crate::rng::hash_bytes(&bytes), 1, &format!("far-switch:{}", name));
        res.count("far_feature_chunk_index", spec.frames[f].chunks.len() as u64 - 1);
        match load(&bytes) {
            Err(e) => res.count(&format!("refused_as:{}", err_variant(&e)), 1),
            Ok(a) => res.violations.push(Violation::new(format!("unsupported-feature-loads|{}|beyond-chunk-65535", name), format!("file whose chunk #{} of frame {} uses the unsupported feature '{}' loaded ({} layers)", spec.frames[f].chunks.len() - 1, f, name, a.num_layers())).with_input(&bytes).with_extra(json!({"switch": name}))),
        }
        res
    });
    sum.merge(far);
    finish(
        ctx,
        sum,
        Finish {
            rule: "well-formed generated sprite with exactly one unsupported feature switched on: pixel ratio a:b (a,b>=1, a!=b), ICC profile chunk (any frame / position), fixed-gamma flag with each profile type, bits-per-tile in {0,1,8,16,31,33,64,65535}, tileset without the embedded-pixels flag (with/without external link, used/unused), colour depth = u16 boundary and random values except 8/16/32, layer type 3..65535, blend mode 19..65535, cel type 4..65535, animation direction 3..255; first / middle / last entity; load must return Err; distinct = file hash".into(),
            coverage_extra: json!({"switches": 10}),
            assumptions: vec!["a pixel ratio a:a with a>1 is not generated (it is 1:1; the crate refuses it, which the property does not forbid)".into()],
            exhaustive: false,
            min_evaluations: 1000,
        },
    )
}
