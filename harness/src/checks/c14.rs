//! C14 — result independent of reader behaviour; I/O errors are returned.
//! Fault enumeration over delivery schedules x fault sequences.

use crate::common::*;
use crate::encode::encode;
use crate::gen::{self, GenCfg};
use crate::observe::{observe, ObsOpts};
use crate::program::{compile_with, Variation};
use crate::readers::*;
use crate::rng::Rng;
use crate::util::*;
use asefile::{AsepriteFile, AsepriteParseError};
use serde_json::json;
use std::error::Error;
use std::io::{self, BufReader, Read, Write};

const KINDS: [io::ErrorKind; 8] = [io::ErrorKind::Other, io::ErrorKind::UnexpectedEof, io::ErrorKind::BrokenPipe, io::ErrorKind::PermissionDenied, io::ErrorKind::ConnectionReset, io::ErrorKind::TimedOut, io::ErrorKind::InvalidData, io::ErrorKind::WouldBlock];

fn digest_of<R: Read>(r: R, opts: &ObsOpts) -> Result<u64, String> {
    match AsepriteFile::read(r) {
        Ok(a) => Ok(observe(&a, opts).digest()),
        Err(e) => Err(err_sig(&e)),
    }
}

fn check_fault(bytes: &[u8], at: usize, kind: io::ErrorKind, marker: u64, max_chunk: usize) -> Option<Violation> {
    let mut rd = Failing::new(bytes, at, kind, marker, max_chunk);
    let r = AsepriteFile::read(&mut rd);
    let mk = |sig: &str, detail: String| Some(Violation::new(format!("io-fault|{}", sig), format!("hard {:?} error injected at byte offset {} of {}: {}", kind, at, bytes.len(), detail)).with_input(bytes).with_extra(json!({"fault_offset": at, "kind": format!("{:?}", kind), "max_chunk": max_chunk})));
    match r {
        Ok(_) => mk("sprite-returned", "loading returned a sprite".into()),
        Err(AsepriteParseError::IoError(e)) => {
            if e.kind() != kind {
                return mk("kind-changed", format!("IoError has kind {:?}", e.kind()));
            }
            match e.get_ref().and_then(|inner| inner.downcast_ref::<Marker>()) {
                Some(m) if m.0 == marker => None,
                Some(m) => mk("wrong-marker", format!("carries marker {:#x}, injected {:#x}", m.0, marker)),
                None => mk("marker-lost", "the IoError does not carry the injected error (a different error was constructed)".into()),
            }
        }
        Err(other) => mk(&format!("not-io-variant|{}", err_variant(&other)), format!("returned {} instead of the I/O-error variant", other)),
    }
}

fn source_check(bytes: &[u8], at: usize) -> Option<Violation> {
    let mut rd = Failing::new(bytes, at, io::ErrorKind::Other, 7, 0);
    if let Err(e) = AsepriteFile::read(&mut rd) {
        let src = e.source();
        match src {
            None => return Some(Violation::new("io-fault|no-source", format!("Error::source() is None for an injected I/O error at offset {}", at)).with_input(bytes)),
            Some(s) => {
                if s.downcast_ref::<io::Error>().is_none() {
                    return Some(Violation::new("io-fault|source-not-io-error", "Error::source() is not the io::Error").with_input(bytes));
                }
            }
        }
    }
    None
}

pub fn run(ctx: &Ctx) -> i32 {
    let nfiles = ctx.tier.pick(600u64, 6_000u64);
    let kinds_per_offset = ctx.tier.pick(2usize, 8usize);
    let opts = ObsOpts::no_images();
    let mut sum = run_cases(ctx, nfiles, |i| {
        let mut rng = Rng::derive(ctx.seed, "C14", i);
        let mut cfg = GenCfg::tiny();
        cfg.max_layers = 4;
        cfg.max_frames = 3;
        let (sp, palprog) = gen::gen_sprite(&mut rng, &cfg);
        let mut v = Variation::none();
        v.storage = rng.chance(1, 2);
        v.ignorable = rng.chance(1, 2);
        v.padding = rng.chance(1, 3);
        let (bytes, _map) = encode(&compile_with(&sp, &mut rng, &v, &palprog));
        let mut res = CaseResult::ok(crate::rng::hash_bytes(&bytes), 0, "file");
        if bytes.len() > 4096 {
            res.outcomes = vec!["skipped:over-4KiB".into()];
            res.nontrivial = false;
            return res;
        }
        // baseline: plain in-memory reader
        let mut lg = Logging::new(&bytes, false);
        let base = match AsepriteFile::read(&mut lg) {
            Ok(a) => observe(&a, &opts).digest(),
            Err(e) => {
                res.violations.push(Violation::new(format!("load-failed|baseline|{}", err_sig(&e)), format!("generated file failed to load: {}", e)).with_input(&bytes));
                return res;
            }
        };
        let calls = lg.calls;
        let consumed = lg.pos;
        res.count("read_calls_baseline", calls);
        let mut cmp = |res: &mut CaseResult, name: &str, r: Result<u64, String>| {
            res.leaves += 1;
            res.count("deliveries", 1);
            match r {
                Ok(d) if d == base => {}
                Ok(_) => res.violations.push(Violation::new(format!("delivery-changes-result|{}", name.split(':').next().unwrap_or(name)), format!("reader behaviour '{}' changed the observation", name)).with_input(&bytes).with_extra(json!({"schedule": name}))),
                Err(e) => res.violations.push(Violation::new(format!("delivery-changes-result|{}|{}", name.split(':').next().unwrap_or(name), e), format!("reader behaviour '{}' made loading fail: {}", name, e)).with_input(&bytes).with_extra(json!({"schedule": name}))),
            }
        };
        // ---- delivery schedules ------------------------------------------------------------
        for k in [1usize, 2, 3, 5, 7, 13, 64, 4096] {
            let r = digest_of(Chunked::new(&bytes, vec![k]), &opts);
            cmp(&mut res, &format!("fixed:{}", k), r);
        }
        for _ in 0..3 {
            let sched: Vec<usize> = (0..rng.range(2, 9)).map(|_| rng.range(1, 40) as usize).collect();
            let r = digest_of(Chunked::new(&bytes, sched.clone()), &opts);
            cmp(&mut res, &format!("random:{:?}", sched), r);
        }
        // two-part split at EVERY offset
        for split in 1..bytes.len() {
            let r = digest_of(Chunked::new(&bytes, vec![split, usize::MAX / 2]), &opts);
            cmp(&mut res, &format!("split:{}", split), r);
        }
        res.count("two_part_splits", bytes.len() as u64 - 1);
        // ---- Interrupted before EVERY read call, one at a time; and bursts -------------------
        for c in 0..calls {
            let mut rd = Interrupting::new(&bytes, vec![c], 0);
            let r = digest_of(&mut rd, &opts);
            if rd.interrupts_delivered != 1 {
                res.inconclusive = Some(format!("interrupt at call {} was not delivered", c));
            }
            cmp(&mut res, &format!("interrupt:{}", c), r);
        }
        res.count("single_interrupt_placements", calls);
        for _ in 0..4 {
            let mut at: Vec<u64> = (0..rng.range(2, 40)).map(|_| rng.below(calls * 2 + 8)).collect();
            at.sort_unstable();
            at.dedup();
            let chunk = *rng.pick(&[0usize, 1, 3, 17]);
            let r = digest_of(Interrupting::new(&bytes, at.clone(), chunk), &opts);
            cmp(&mut res, &format!("interrupt-burst:{}x/chunk{}", at.len(), chunk), r);
        }
        // runs of consecutive interrupts (a stalled descriptor): 20 in a row before EVERY call, longer runs at sampled calls
        for c in 0..calls {
            let r = digest_of(Interrupting::new(&bytes, (c..c + 20).collect(), if c % 2 == 0 { 0 } else { 3 }), &opts);
            cmp(&mut res, &format!("interrupt-run:20@{}", c), r);
        }
        for len in [2u64, 17, 300, 70_000] {
            for c in [0, rng.below(calls), rng.below(calls), calls.saturating_sub(1)] {
                let r = digest_of(Interrupting::new(&bytes, (c..c + len).collect(), 0), &opts);
                cmp(&mut res, &format!("interrupt-run:{}@{}", len, c), r);
            }
        }
        res.count("interrupt_run_placements", calls + 16);
        // ---- hard errors at EVERY byte offset below the consumed length ----------------------
        let mut faults = 0u64;
        for at in 0..consumed {
            for kk in 0..kinds_per_offset {
                let kind = KINDS[(at + kk * 3 + i as usize) % KINDS.len()];
                let marker = ((i << 32) | (at as u64) << 4 | kk as u64) ^ 0xFA17;
                let chunk = if (at + kk) % 3 == 0 { 1 + at % 7 } else { 0 };
                faults += 1;
                if let Some(v) = check_fault(&bytes, at, kind, marker, chunk) {
                    res.violations.push(v);
                }
            }
            if at % 64 == 0 {
                if let Some(v) = source_check(&bytes, at) {
                    res.violations.push(v);
                }
            }
        }
        res.leaves += faults;
        res.count("hard_faults_injected", faults);
        res.count("fault_offsets", consumed as u64);
        // ---- OS-backed readers -------------------------------------------------------------------
        if i % 4 == 0 {
            for cap in [1usize, 2, 3, 7, 8192] {
                let r = digest_of(BufReader::with_capacity(cap, Chunked::new(&bytes, vec![5, 1, 9])), &opts);
                cmp(&mut res, &format!("bufreader:{}", cap), r);
            }
            // temp file through read_file
            let path = std::env::temp_dir().join(format!("asemon-c14-{}-{}.aseprite", std::process::id(), i));
            if std::fs::write(&path, &bytes).is_ok() {
                let r = match AsepriteFile::read_file(&path) {
                    Ok(a) => Ok(observe(&a, &opts).digest()),
                    Err(e) => Err(err_sig(&e)),
                };
                let _ = std::fs::remove_file(&path);
                cmp(&mut res, "read_file:tempfile", r);
            }
            // a named pipe through read_file: a path whose stat size (0) says nothing about the bytes it delivers
            let fifo = std::env::temp_dir().join(format!("asemon-c14-fifo-{}-{}", std::process::id(), i));
            if let Ok(cpath) = std::ffi::CString::new(fifo.to_string_lossy().as_bytes()) {
                if unsafe { libc::mkfifo(cpath.as_ptr(), 0o600) } == 0 {
                    let data = bytes.clone();
                    let wpath = fifo.clone();
                    let h = std::thread::spawn(move || {
                        if let Ok(mut f) = std::fs::OpenOptions::new().write(true).open(&wpath) {
                            for part in data.chunks(997) {
                                if f.write_all(part).is_err() {
                                    break;
                                }
                            }
                        }
                    });
                    let r = match AsepriteFile::read_file(&fifo) {
                        Ok(a) => Ok(observe(&a, &opts).digest()),
                        Err(e) => Err(err_sig(&e)),
                    };
                    // release the writer should the library never have opened the pipe
                    let fd = unsafe { libc::open(cpath.as_ptr(), libc::O_RDONLY | libc::O_NONBLOCK) };
                    let _ = h.join();
                    if fd >= 0 {
                        unsafe { libc::close(fd) };
                    }
                    let _ = std::fs::remove_file(&fifo);
                    cmp(&mut res, "read_file:named-pipe", r);
                    res.count("named_pipe_loads", 1);
                }
            }
            // a missing file is an I/O error, not a panic
            let missing = std::env::temp_dir().join(format!("asemon-c14-missing-{}-{}", std::process::id(), i));
            match AsepriteFile::read_file(&missing) {
                Err(AsepriteParseError::IoError(_)) => {}
                Err(e) => res.violations.push(Violation::new("read_file|missing-file-not-io-error", format!("read_file on a missing path returned {}", e))),
                Ok(_) => res.violations.push(Violation::new("read_file|missing-file-loaded", "read_file on a missing path returned a sprite")),
            }
            // unix stream fed by a dribbling writer thread
            if let Ok((mut tx, rx)) = std::os::unix::net::UnixStream::pair() {
                let data = bytes.clone();
                let seed = rng.next_u64();
                let h = std::thread::spawn(move || {
                    let mut r = Rng::new(seed);
                    let mut p = 0;
                    while p < data.len() {
                        let n = (r.range(1, 200) as usize).min(data.len() - p);
                        if tx.write_all(&data[p..p + n]).is_err() {
                            break;
                        }
                        p += n;
                        if r.chance(1, 8) {
                            std::thread::yield_now();
                        }
                    }
                    // dropping tx closes the stream
                });
                let r = digest_of(rx, &opts);
                let _ = h.join();
                cmp(&mut res, "unixstream:dribble", r);
            }
        }
        if i == 0 {
            res.sample = Some(json!({"file_len": bytes.len(), "read_calls": calls, "consumed": consumed, "schedules": "fixed k in {1,2,3,5,7,13,64,4096}; 3 random; two-part split at every offset; Interrupted before every call; bursts; hard faults at every offset", "model": sprite_summary(&sp)}));
        }
        res
    });
    // ---- chunk payloads beyond 64 KiB: interrupts / short reads deep inside one payload ---------------------
    let nbig = ctx.tier.pick(6u64, 60u64);
    let big = run_stage(ctx, "big-payload", nbig, |i| {
        use crate::model::*;
        let mut rng = Rng::derive(ctx.seed, "C14-big", i);
        let fmt = *rng.pick(&[Fmt::Rgba, Fmt::Gray, Fmt::Indexed]);
        let mut sp = Sprite::blank(8, 8, fmt, 1);
        if fmt == Fmt::Indexed {
            let mut pal = std::collections::BTreeMap::new();
            for k in 0..256u32 {
                pal.insert(k, PalEntryM { rgba: [k as u8, 1, 2, 255], name: None });
            }
            sp.palette = Some(pal);
        }
        sp.layers.push(LayerM::image("big"));
        // payload sizes around and well beyond 64 KiB
        let target = *rng.pick(&[65_537usize, 70_000, 83_200, 131_073, 200_000]);
        let w = 200u16;
        let h = ((target / fmt.bpp()) / w as usize + 1) as u16;
        let px = gen::gen_pixels(&mut rng, &sp, w as usize * h as usize);
        sp.cels.insert((0, 0), CelM { x: -3, y: -2, opacity: 255, content: CelContentM::Image { w, h, pixels: px }, ud: None });
        let mut v = Variation::none();
        v.default_storage = if i % 2 == 0 { Storage::Raw } else { Storage::Stored(65535) };
        let (bytes, _map) = encode(&compile_with(&sp, &mut rng, &v, &crate::program::PaletteProgram::Auto));
        let mut res = CaseResult::ok(crate::rng::hash_bytes(&bytes), 0, "big-payload-file");
        let o = ObsOpts::full();
        let base = match digest_of(&bytes[..], &o) {
            Ok(d) => d,
            Err(e) => {
                res.violations.push(Violation::new(format!("load-failed|big-payload|{}", e), "generated big-payload file failed to load").with_input(&bytes));
                return res;
            }
        };
        for chunk in [0usize, 8192, 1000, 65_536, 4099] {
            // how many read calls does this delivery take?
            let mut probe = Interrupting::new(&bytes, vec![], chunk);
            let _ = AsepriteFile::read(&mut probe);
            let calls = probe.call;
            res.count("big_payload_read_calls", calls);
            for c in 0..calls {
                let mut rd = Interrupting::new(&bytes, vec![c], chunk);
                let r = digest_of(&mut rd, &o);
                res.leaves += 1;
                match r {
                    Ok(d) if d == base => {}
                    Ok(_) => res.violations.push(Violation::new("delivery-changes-result|interrupt-big-payload", format!("Interrupted before read call {} (max chunk {}) changed the observation of a file with a {}-byte chunk payload", c, chunk, w as usize * h as usize * fmt.bpp())).with_input(&bytes)),
                    Err(e) => res.violations.push(Violation::new(format!("delivery-changes-result|interrupt-big-payload|{}", e), format!("Interrupted before read call {} (max chunk {}) made loading fail: {}", c, chunk, e)).with_input(&bytes).with_extra(json!({"call": c, "max_chunk": chunk}))),
                }
            }
            res.count("big_payload_interrupt_placements", calls);
        }
        for k in [1usize, 4096, 8191, 65_535, 65_536, 65_537] {
            let r = digest_of(Chunked::new(&bytes, vec![k]), &o);
            res.leaves += 1;
            if r != Ok(base) {
                res.violations.push(Violation::new("delivery-changes-result|fixed-big-payload", format!("chunk size {} changed the result for a big payload: {:?}", k, r.err())).with_input(&bytes));
            }
        }
        let step = 997;
        let mut at = 0;
        while at < bytes.len() {
            if let Some(v) = check_fault(&bytes, at, KINDS[(at / step) % 8], at as u64 ^ 0xB16, if at % 2 == 0 { 0 } else { 4096 }) {
                res.violations.push(v);
            }
            res.leaves += 1;
            at += step;
        }
        if i == 0 {
            res.sample = Some(json!({"big_payload_file_len": bytes.len(), "payload_bytes": w as usize * h as usize * fmt.bpp(), "format": fmt.name()}));
        }
        res
    });
    sum.merge(big);
    // corpus files through the coarse schedules
    let corpus = crate::corpus::list(ctx);
    let cs = run_stage(ctx, "corpus", corpus.len() as u64, |i| {
        let (name, bytes) = &corpus[i as usize];
        let mut res = CaseResult::ok(crate::rng::hash_bytes(&bytes[..bytes.len().min(4096)]), 0, "corpus");
        let o = ObsOpts::structure_only();
        let base = match digest_of(&bytes[..], &o) {
            Ok(d) => d,
            Err(_) => return res,
        };
        for k in [1usize, 7, 4096, 65536] {
            if k == 1 && bytes.len() > 100_000 {
                continue;
            }
            res.leaves += 1;
            match digest_of(Chunked::new(bytes, vec![k]), &o) {
                Ok(d) if d == base => {}
                other => res.violations.push(Violation::new("delivery-changes-result|corpus", format!("{} with chunk size {}: {:?}", name, k, other.err())).with_extra(json!({"file": name}))),
            }
        }
        let path = ctx.corpus_dir().join(format!("{}.aseprite", name));
        res.leaves += 1;
        match AsepriteFile::read_file(&path) {
            Ok(a) if observe(&a, &o).digest() == base => {}
            _ => res.violations.push(Violation::new("delivery-changes-result|corpus-read_file", format!("{} via read_file differs from the in-memory reader", name))),
        }
        // transient interrupts at sampled read calls (the blend files have 262 KB chunk payloads)
        {
            let mut probe = Interrupting::new(bytes, vec![], 8192);
            let _ = AsepriteFile::read(&mut probe);
            let calls = probe.call.max(1);
            let stride = (calls / 48).max(1);
            let mut c = (ctx.seed % stride.max(1)) as u64;
            while c < calls {
                res.leaves += 1;
                match digest_of(Interrupting::new(bytes, vec![c], 8192), &o) {
                    Ok(d) if d == base => {}
                    other => res.violations.push(Violation::new("delivery-changes-result|corpus-interrupt", format!("{}: Interrupted before read call {} of {}: {:?}", name, c, calls, other.err())).with_extra(json!({"file": name, "call": c}))),
                }
                c += stride;
            }
        }
        // hard faults on a coarse grid
        let step = (bytes.len() / 200).max(1);
        let mut at = 0;
        while at < bytes.len() {
            if let Some(v) = check_fault(bytes, at, KINDS[(at / step) % 8], at as u64 ^ 0xC0, 0) {
                res.violations.push(v);
            }
            res.leaves += 1;
            at += step;
        }
        res
    });
    sum.merge(cs);
    finish(
        &Ctx { level: "fault_enumeration", ..ctx.clone() },
        sum,
        Finish {
            rule: format!("per generated file (<= 4 KiB): delivery schedules (1 byte at a time, fixed k, random sizes, two-part split at EVERY offset), ErrorKind::Interrupted injected before EVERY read call index (one at a time) and in bursts, a hard error of {} kinds (rotating over 8 kinds) at EVERY byte offset below the consumed length with short-read chunking, BufReader capacities, read_file on a temp file, a UnixStream fed by a dribbling thread; observation digests must equal the plain slice reader's; faults must come back as IoError carrying the injected marker with the same kind and a source(). distinct = distinct files", kinds_per_offset),
            coverage_extra: json!({"kinds": KINDS.iter().map(|k| format!("{:?}", k)).collect::<Vec<_>>(), "corpus_files": corpus.len()}),
            assumptions: vec!["Interrupted is transient: the reader succeeds when the call is retried".into()],
            exhaustive: false,
            min_evaluations: 50,
        },
    )
}
