//! C01 — decoded sprite structure equals what the file encodes.
//! Oracle: expect(model) vs observe(load(encode(model))) under random
//! spec-conformant programs; plus structural giants.

use crate::common::*;
use crate::gen::{self, GenCfg};
use crate::model::*;
use crate::observe::ObsOpts;
use crate::program::{PaletteProgram, Variation};
use crate::rng::Rng;
use crate::util::*;
use serde_json::json;

fn program_variation(rng: &mut Rng) -> Variation {
    // a random vector of spec-conformant program choices
    let mut v = Variation::none();
    v.storage = rng.chance(1, 2);
    v.count_style = rng.chance(1, 2);
    v.ignorable = rng.chance(1, 2);
    v.junk = rng.chance(1, 2);
    v.zero_ratio = rng.chance(1, 4);
    v.padding = rng.chance(1, 3);
    v.trailer = rng.chance(1, 4);
    v.legacy_pal = rng.chance(1, 3);
    v.cel_order = rng.chance(1, 2);
    v.split = rng.chance(1, 3);
    v
}

use crate::giants::giant;

pub fn run(ctx: &Ctx) -> i32 {
    let n = ctx.tier.pick(60_000u64, 600_000u64);
    let programs_per_model = ctx.tier.pick(1u64, 2u64);
    let opts = ObsOpts::no_images();
    let mut sum = run_cases(ctx, n, |i| {
        let mut rng = Rng::derive(ctx.seed, "C01", i);
        let mut cfg = GenCfg::small();
        cfg.max_w = 64;
        cfg.max_h = 64;
        cfg.max_cel = 6;
        cfg.big = true;
        cfg.max_layers = if i % 50 == 0 { 40 } else { 10 };
        cfg.max_frames = if i % 50 == 1 { 12 } else { 5 };
        // full-range canvas sizes are cheap when nothing is rendered
        let (mut sp, palprog) = gen::gen_sprite(&mut rng, &cfg);
        if rng.chance(1, 6) {
            sp.width = *rng.pick(&[1u16, 65535, 32768, 255, 256]);
            sp.height = *rng.pick(&[1u16, 65535, 32767, 256]);
            // tilemap logical sizes are derived from the canvas; keep them representable
            sp.cels.retain(|_, c| !matches!(c.content, CelContentM::Tilemap { .. }));
            // links whose target was a tilemap cel go with it
            let keys: Vec<(u16, u16)> = sp.cels.keys().cloned().collect();
            for k in keys {
                if let CelContentM::Link(t) = sp.cels[&k].content {
                    if !sp.cels.contains_key(&(t, k.1)) {
                        sp.cels.remove(&k);
                    }
                }
            }
        }
        // one in eight non-indexed sprites gets its palette from a legacy chunk (several packets, skips)
        let mut palprog = palprog;
        if sp.fmt != Fmt::Indexed && sp.sprite_ud.is_none() && i % 8 == 3 {
            let kind = if rng.chance(1, 2) { 4u16 } else { 0x11 };
            let pcase = rng.below(7);
            let packets = crate::checks::c11::gen_packets(&mut rng, kind, pcase);
            sp.palette = Some(crate::checks::c11::legacy_expected(kind, &packets));
            palprog = PaletteProgram::Chunks(vec![ChunkSpec::OldPalette { kind, packets }]);
        }
        let mut opts = opts.clone();
        if let Some(p) = &sp.palette {
            if p.len() <= 2000 {
                opts.palette_probe = p.keys().cloned().collect();
            }
        }
        let opts = &opts;
        let feature = gen::features(&sp);
        let mut res = CaseResult::ok(feature, 0, "ok");
        for p in 0..programs_per_model {
            let v = program_variation(&mut rng);
            let (_bytes, leaves, viol) = roundtrip(&sp, &palprog, &mut rng, &v, opts, "structure");
            res.leaves += leaves;
            res.count("programs", 1);
            if let Some(v) = viol {
                res.outcomes = vec!["violation".into()];
                res.violations.push(v);
            }
            if i == 0 && p == 0 {
                res.sample = Some(json!({"case": i, "model": sprite_summary(&sp), "program": v.describe()}));
            }
        }
        res.count("layers", sp.layers.len() as u64);
        res.count("cels", sp.cels.len() as u64);
        res.count("tags", sp.tags.len() as u64);
        res.count("slices", sp.slices.len() as u64);
        res
    });
    // structural giants (sequential: each is large)
    let mut gctx = ctx.clone();
    gctx.threads = 7;
    let giants = run_stage(&gctx, "giants", 7, |k| {
        let (sp, name) = giant(if k >= 3 { k } else if k == 2 { 99 } else { k });
        let mut rng = Rng::derive(ctx.seed, "C01-giant", k);
        let mut o = ObsOpts::no_images();
        if let Some(p) = &sp.palette {
            o.palette_probe = p.keys().cloned().collect();
        }
        o.id_probe = sp.tilesets.iter().map(|t| t.id).chain(sp.ext_files.iter().map(|f| f.id)).collect();
        if k == 0 || k == 3 || k == 5 {
            o.cels = true;
        }
        if k == 3 {
            o.cel_images = true;
            o.frame_images = true;
        }
        let (_b, leaves, viol) = roundtrip(&sp, &PaletteProgram::Auto, &mut rng, &Variation::none(), &o, name);
        let mut res = CaseResult::ok(gen::features(&sp), leaves, &format!("giant:{}", name));
        res.sample = Some(json!({"giant": name, "frames": sp.durations.len(), "layers": sp.layers.len(), "tags": sp.tags.len()}));
        if let Some(v) = viol {
            res.violations.push(v);
        }
        res
    });
    sum.merge(giants);
    finish(
        ctx,
        sum,
        Finish {
            rule: "PRNG-generated well-formed sprite models (all three formats, layer forests, attribute extremes) each encoded under a random spec-conformant chunk program; distinct = distinct model feature hash (canvas, layers, cels, pixels, attribute counts); every model is non-trivial (>=1 layer, >=1 frame)".into(),
            coverage_extra: json!({"programs_per_model": programs_per_model, "giants": ["65535 frames", "65535 tags", "4096 layers", "300 layers x 300 frames with links into frames >= 256", "300 tags / slices (one with 300 keys) / external files / tilesets / palette entries", "65548 layers with groups and nested children beyond index 65535", "70000 palette entries / slices (one with 70000 keys) / external files / tilesets"]}),
            assumptions: vec!["the harness encoder writes the format as the Aseprite file spec describes it (cross-checked against the GUI-produced corpus by the C07/C13 corpus walks)".into()],
            exhaustive: false,
            min_evaluations: 100,
        },
    )
}
