//! C01 — decoded sprite structure equals what the file encodes.
//! Oracle: expect(model) vs observe(load(encode(model))) under random
//! spec-conformant programs; plus structural giants.

use crate::common::*;
use crate::gen::{self, GenCfg};
use crate::model::*;
use crate::observe::ObsOpts;
use crate::program::{PaletteProgram, Variation};
use crate::rng::Rng;
use crate::util::*;
use serde_json::json;

fn program_variation(rng: &mut Rng) -> Variation {
    // a random vector of spec-conformant program choices
    let mut v = Variation::none();
    v.storage = rng.chance(1, 2);
    v.count_style = rng.chance(1, 2);
    v.ignorable = rng.chance(1, 2);
    v.junk = rng.chance(1, 2);
    v.zero_ratio = rng.chance(1, 4);
    v.padding = rng.chance(1, 3);
    v.trailer = rng.chance(1, 4);
    v.legacy_pal = rng.chance(1, 3);
    v.cel_order = rng.chance(1, 2);
    v
}

fn giant(kind: u64) -> (Sprite, &'static str) {
    match kind {
        0 => {
            // 65535 frames, each with its own duration
            let mut sp = Sprite::blank(3, 2, Fmt::Rgba, 65535);
            for (i, d) in sp.durations.iter_mut().enumerate() {
                *d = (i as u32 * 7 % 65536) as u16;
            }
            sp.layers.push(LayerM::image("only"));
            sp.cels.insert((65534, 0), CelM { x: 1, y: 0, opacity: 9, content: CelContentM::Image { w: 1, h: 1, pixels: vec![1, 2, 3, 4] }, ud: None });
            (sp, "65535-frames")
        }
        1 => {
            let mut sp = Sprite::blank(1, 1, Fmt::Gray, 2);
            sp.layers.push(LayerM::image("l"));
            for i in 0..65535u32 {
                sp.tags.push(TagM { from: i as u16, to: (65535 - i) as u16, dir: (i % 3) as u8, repeat: (i * 3 % 65536) as u16, color: i, name: format!("t{}", i % 1000), ud: None });
            }
            (sp, "65535-tags")
        }
        3 => {
            // both dimensions of the cel table beyond 256, with links into late frames
            let n = 300usize;
            let mut sp = Sprite::blank(2, 2, Fmt::Rgba, n);
            for i in 0..n {
                let mut l = LayerM::image(&format!("L{}", i % 97));
                l.opacity = (i % 256) as u8;
                sp.layers.push(l);
            }
            for l in 0..n as u16 {
                let target = 256 + (l % 40);
                sp.cels.insert((target, l), CelM { x: (l % 2) as i16, y: 0, opacity: (l % 251) as u8, content: CelContentM::Image { w: 1, h: 1, pixels: vec![l as u8, (l >> 8) as u8, 7, 255] }, ud: None });
                let from = if l % 3 == 0 { 299 - (l % 2) } else { l % 200 };
                if from != target {
                    let t = sp.cels[&(target, l)].clone();
                    sp.cels.insert((from, l), CelM { x: t.x, y: t.y, opacity: t.opacity, content: CelContentM::Link(target), ud: None });
                }
                // a plain cel early on as well
                if l % 5 == 0 {
                    sp.cels.insert((l % 7 + 200, l), CelM { x: 0, y: 1, opacity: 255, content: CelContentM::Image { w: 1, h: 1, pixels: vec![9, l as u8, 9, 200] }, ud: None });
                }
            }
            (sp, "300x300-links")
        }
        _ => {
            let mut sp = Sprite::blank(2, 2, Fmt::Rgba, 1);
            for i in 0..4096u32 {
                let mut l = LayerM::image(&format!("L{}", i % 512));
                l.opacity = (i % 256) as u8;
                l.blend = (i % 19) as u16;
                // alternating group / child structure with growing depth up to 64
                if i % 3 == 0 {
                    l.kind = LayerKind::Group;
                    l.level = ((i / 3) % 64) as u16;
                    if i > 0 && l.level > 0 {
                        // level may only rise by one after a group: fix up below
                    }
                }
                sp.layers.push(l);
            }
            // make levels a valid forest: level[i] <= level[i-1]+1 and only groups have children
            let mut prev_level = 0u16;
            let mut prev_group = false;
            for (i, l) in sp.layers.iter_mut().enumerate() {
                let want = ((i as u32).wrapping_mul(2654435761u32) >> 26) as u16; // pseudo-random 0..63
                let max = if i == 0 { 0 } else if prev_group { prev_level + 1 } else { prev_level };
                l.level = want.min(max);
                prev_level = l.level;
                prev_group = l.kind == LayerKind::Group;
            }
            (sp, "4096-layers")
        }
    }
}

pub fn run(ctx: &Ctx) -> i32 {
    let n = ctx.tier.pick(60_000u64, 600_000u64);
    let programs_per_model = ctx.tier.pick(1u64, 2u64);
    let opts = ObsOpts::no_images();
    let mut sum = run_cases(ctx, n, |i| {
        let mut rng = Rng::derive(ctx.seed, "C01", i);
        let mut cfg = GenCfg::small();
        cfg.max_w = 64;
        cfg.max_h = 64;
        cfg.max_cel = 6;
        cfg.big = true;
        cfg.max_layers = if i % 50 == 0 { 40 } else { 10 };
        cfg.max_frames = if i % 50 == 1 { 12 } else { 5 };
        // full-range canvas sizes are cheap when nothing is rendered
        let (mut sp, palprog) = gen::gen_sprite(&mut rng, &cfg);
        if rng.chance(1, 6) {
            sp.width = *rng.pick(&[1u16, 65535, 32768, 255, 256]);
            sp.height = *rng.pick(&[1u16, 65535, 32767, 256]);
            // tilemap logical sizes are derived from the canvas; keep them representable
            sp.cels.retain(|_, c| !matches!(c.content, CelContentM::Tilemap { .. }));
            // links whose target was a tilemap cel go with it
            let keys: Vec<(u16, u16)> = sp.cels.keys().cloned().collect();
            for k in keys {
                if let CelContentM::Link(t) = sp.cels[&k].content {
                    if !sp.cels.contains_key(&(t, k.1)) {
                        sp.cels.remove(&k);
                    }
                }
            }
        }
        let feature = gen::features(&sp);
        let mut res = CaseResult::ok(feature, 0, "ok");
        for p in 0..programs_per_model {
            let v = program_variation(&mut rng);
            let (_bytes, leaves, viol) = roundtrip(&sp, &palprog, &mut rng, &v, &opts, "structure");
            res.leaves += leaves;
            res.count("programs", 1);
            if let Some(v) = viol {
                res.outcomes = vec!["violation".into()];
                res.violations.push(v);
            }
            if i == 0 && p == 0 {
                res.sample = Some(json!({"case": i, "model": sprite_summary(&sp), "program": v.describe()}));
            }
        }
        res.count("layers", sp.layers.len() as u64);
        res.count("cels", sp.cels.len() as u64);
        res.count("tags", sp.tags.len() as u64);
        res.count("slices", sp.slices.len() as u64);
        res
    });
    // structural giants (sequential: each is large)
    let mut gctx = ctx.clone();
    gctx.threads = 4;
    let giants = run_stage(&gctx, "giants", 4, |k| {
        let (sp, name) = giant(if k == 3 { 3 } else if k == 2 { 99 } else { k });
        let mut rng = Rng::derive(ctx.seed, "C01-giant", k);
        let mut o = ObsOpts::no_images();
        if k == 0 || k == 3 {
            o.cels = true;
        }
        if k == 3 {
            o.cel_images = true;
            o.frame_images = true;
        }
        let (_b, leaves, viol) = roundtrip(&sp, &PaletteProgram::Auto, &mut rng, &Variation::none(), &o, name);
        let mut res = CaseResult::ok(gen::features(&sp), leaves, &format!("giant:{}", name));
        res.sample = Some(json!({"giant": name, "frames": sp.durations.len(), "layers": sp.layers.len(), "tags": sp.tags.len()}));
        if let Some(v) = viol {
            res.violations.push(v);
        }
        res
    });
    sum.merge(giants);
    finish(
        ctx,
        sum,
        Finish {
            rule: "PRNG-generated well-formed sprite models (all three formats, layer forests, attribute extremes) each encoded under a random spec-conformant chunk program; distinct = distinct model feature hash (canvas, layers, cels, pixels, attribute counts); every model is non-trivial (>=1 layer, >=1 frame)".into(),
            coverage_extra: json!({"programs_per_model": programs_per_model, "giants": ["65535 frames", "65535 tags", "4096 layers", "300 layers x 300 frames with links into frames >= 256"]}),
            assumptions: vec!["the harness encoder writes the format as the Aseprite file spec describes it (cross-checked against the GUI-produced corpus by the C07/C13 corpus walks)".into()],
            exhaustive: false,
            min_evaluations: 100,
        },
    )
}
