//! C09 — layer parents and visibility follow the nesting levels.
//! Exhaustive over every forest-shaped level sequence of up to 8 layers and
//! every assignment of visible flags; random deep / wide forests in addition.

use crate::common::*;
use crate::encode::encode;
use crate::model::*;
use crate::program::{compile, Variation};
use crate::rng::Rng;
use crate::util::*;
use serde_json::json;

/// all level sequences of length n with level[0]=0 and level[i] <= level[i-1]+1
pub fn level_sequences(n: usize) -> Vec<Vec<u16>> {
    let mut out = Vec::new();
    fn rec(cur: &mut Vec<u16>, n: usize, out: &mut Vec<Vec<u16>>) {
        if cur.len() == n {
            out.push(cur.clone());
            return;
        }
        let max = if cur.is_empty() { 0 } else { cur[cur.len() - 1] + 1 };
        for l in 0..=max {
            cur.push(l);
            rec(cur, n, out);
            cur.pop();
        }
    }
    rec(&mut Vec::new(), n, &mut out);
    out
}

fn forest_sprite(levels: &[u16], vis_mask: u64) -> Sprite {
    let n = levels.len();
    // the canvas is at most 4096 wide: leaf i sits at x = i mod width (higher layers paint over lower ones)
    let pixels = true;
    let width = n.min(4096);
    let mut sp = Sprite::blank(width as u16, 1, Fmt::Rgba, 1);
    for i in 0..n {
        let has_child = i + 1 < n && levels[i + 1] > levels[i];
        let mut l = LayerM::image(&format!("l{}", i));
        l.level = levels[i];
        l.flags = 2 | ((vis_mask >> (i % 64)) & 1) as u16;
        if has_child {
            l.kind = LayerKind::Group;
        } else if pixels && i <= 65_535 {
            // unique opaque colour at x = layer index
            let col = [(i * 37 % 251) as u8 + 1, (i / 251) as u8, (i % 7) as u8 * 30 + 5, 255];
            sp.cels.insert((0, i as u16), CelM { x: (i % width) as i16, y: 0, opacity: 255, content: CelContentM::Image { w: 1, h: 1, pixels: col.to_vec() }, ud: None });
        }
        sp.layers.push(l);
    }
    sp
}

/// A handle reached through `parent()` must be THE layer with that id: every accessor of it answers like the handle
/// `file.layer(id)` does (walks at most 64 ancestors per layer). Returns a description of the first difference.
fn ancestor_handles_differ(ase: &asefile::AsepriteFile, k: u32) -> Option<String> {
    fn describe(l: &asefile::Layer) -> String {
        format!("id {} name {:?} flags {:?} visible {} blend {:?} opacity {} type {:?} tilemap {} user_data {:?}", l.id(), l.name(), l.flags(), l.is_visible(), l.blend_mode(), l.opacity(), l.layer_type(), l.is_tilemap(), l.user_data())
    }
    fn walk(ase: &asefile::AsepriteFile, k: u32, cur: &asefile::Layer, depth: u32) -> Option<String> {
        let up = cur.parent()?;
        let direct = ase.layer(up.id());
        let (a, b) = (describe(&up), describe(&direct));
        if a != b {
            return Some(format!("layer {}: the handle of ancestor {} reached through {} parent() call(s) says [{}] but file.layer({}) says [{}]", k, up.id(), depth + 1, a, up.id(), b));
        }
        if depth >= 64 {
            return None;
        }
        walk(ase, k, &up, depth + 1)
    }
    walk(ase, k, &ase.layer(k), 0)
}

fn check_forest(sp: &Sprite, what: &str) -> (u64, Option<Violation>) {
    let mut rng = Rng::new(1);
    let mut v = Variation::none();
    v.default_storage = Storage::Raw;
    let (bytes, _) = encode(&compile(sp, &mut rng, &v));
    let levels: Vec<u16> = sp.layers.iter().map(|l| l.level).collect();
    let flags: Vec<u16> = sp.layers.iter().map(|l| l.flags & 1).collect();
    let mk = |sig: &str, detail: String| Some(Violation::new(format!("{}|{}", sig, what), detail).with_input(&bytes).with_extra(json!({"levels": levels, "visible_flags": flags})));
    let ase = match load(&bytes) {
        Ok(a) => a,
        Err(e) => return (0, mk("load-failed", format!("forest failed to load: {}", e))),
    };
    let n = sp.layers.len();
    // direct computation from the level sequence
    let parents = sp.parents();
    let visible = sp.visible();
    let mut leaves = 0;
    if ase.num_layers() as usize != n {
        return (0, mk("num-layers", format!("{} layers, expected {}", ase.num_layers(), n)));
    }
    for i in 0..n {
        let l = ase.layer(i as u32);
        let p = l.parent().map(|p| p.id() as usize);
        if p != parents[i] {
            return (leaves, mk("parent", format!("layer {} parent {:?}, expected {:?} (levels {:?})", i, p, parents[i], levels)));
        }
        if let Some(p) = p {
            if p >= i {
                return (leaves, mk("parent-order", format!("layer {} has parent {} >= itself", i, p)));
            }
        }
        if l.is_visible() != visible[i] {
            return (leaves, mk("is-visible", format!("layer {} is_visible {} expected {} (levels {:?} flags {:?})", i, l.is_visible(), visible[i], levels, flags)));
        }
        if n <= 4096 || i % 61 == 0 {
            if let Some(d) = ancestor_handles_differ(&ase, i as u32) {
                return (leaves, mk("parent-handle", d));
            }
            leaves += 1;
        }
        leaves += 2;
    }
    // the same layers reached through the iterator and its adaptors (skip / nth / step_by / last / rev if offered)
    if n <= 4096 {
        let direct: Vec<(u32, Option<u32>, bool)> = (0..n).map(|i| { let l = ase.layer(i as u32); (l.id(), l.parent().map(|p| p.id()), l.is_visible()) }).collect();
        let via = |it: &mut dyn Iterator<Item = asefile::Layer>| -> Vec<(u32, Option<u32>, bool)> { it.map(|l| (l.id(), l.parent().map(|p| p.id()), l.is_visible())).collect() };
        let k = (n / 2).max(1).min(n - 1);
        let checks: Vec<(&str, Vec<(u32, Option<u32>, bool)>, Vec<(u32, Option<u32>, bool)>)> = vec![
            ("layers()", via(&mut ase.layers()), direct.clone()),
            ("layers().skip(k)", via(&mut ase.layers().skip(k)), direct[k..].to_vec()),
            ("layers().step_by(2)", via(&mut ase.layers().step_by(2)), direct.iter().cloned().step_by(2).collect()),
            ("layers().nth(k) then the rest", { let mut it = ase.layers(); let first = it.nth(k); let mut v: Vec<_> = first.into_iter().map(|l| (l.id(), l.parent().map(|p| p.id()), l.is_visible())).collect(); v.extend(via(&mut it)); v }, direct[k..].to_vec()),
            ("layers().last()", ase.layers().last().into_iter().map(|l| (l.id(), l.parent().map(|p| p.id()), l.is_visible())).collect(), direct[n - 1..].to_vec()),
        ];
        for (name, got, want) in checks {
            if got != want {
                let at = got.iter().zip(want.iter()).position(|(a, b)| a != b).unwrap_or(got.len().min(want.len()));
                return (leaves, mk("layers-iterator", format!("{} (k = {}) differs from layer(i) at position {}: {:?} vs {:?}", name, k, at, got.get(at), want.get(at))));
            }
            leaves += 1;
        }
    }
    let img = ase.frame(0).image();
    let width = n.min(4096);
    if img.width() as usize != width || img.height() != 1 {
        return (leaves, mk("frame-dim", format!("frame image {}x{}", img.width(), img.height())));
    }
    // expected: at each x the topmost visible leaf whose index is congruent to x (opaque Normal layers)
    let mut top: Vec<Option<usize>> = vec![None; width];
    for i in 0..n {
        // (cel keys are u16: layers beyond 65535 cannot carry cels)
        if i <= 65_535 && visible[i] && sp.cels.contains_key(&(0, i as u16)) {
            top[i % width] = Some(i);
        }
    }
    for x in 0..width {
        let px = img.get_pixel(x as u32, 0).0;
        match top[x] {
            Some(i) => {
                if let Some(CelM { content: CelContentM::Image { pixels, .. }, .. }) = sp.cels.get(&(0, i as u16)) {
                    if px[..] != pixels[..] {
                        let short = |v: &Vec<u16>| if v.len() > 24 { format!("{:?}.. ({} layers)", &v[..24], v.len()) } else { format!("{:?}", v) };
                        return (leaves, mk(if px[3] == 0 { "visible-pixel-missing" } else { "hidden-pixel" }, format!("pixel {} = {:?}, expected the colour {:?} of visible layer {} (levels {}, flags {})", x, px, pixels, i, short(&levels), short(&flags))));
                    }
                }
            }
            None => {
                if px[3] != 0 {
                    let short = |v: &Vec<u16>| if v.len() > 24 { format!("{:?}.. ({} layers)", &v[..24], v.len()) } else { format!("{:?}", v) };
                    return (leaves, mk("hidden-pixel", format!("pixel {} = {:?} although every layer at that position is hidden or a group (levels {}, flags {})", x, px, short(&levels), short(&flags))));
                }
            }
        }
        leaves += 1;
    }
    (leaves, None)
}

pub fn run(ctx: &Ctx) -> i32 {
    // exhaustive part
    let mut seqs: Vec<Vec<u16>> = Vec::new();
    for n in 1..=8 {
        seqs.extend(level_sequences(n));
    }
    let nseq = seqs.len() as u64;
    let mut sum = run_cases(ctx, nseq, |i| {
        let levels = &seqs[i as usize];
        let n = levels.len();
        let mut res = CaseResult::default();
        res.nontrivial = true;
        res.feature = crate::rng::hash_bytes(&levels.iter().map(|x| *x as u8).collect::<Vec<u8>>());
        let mut sprites = 0u64;
        for mask in 0..(1u64 << n) {
            let sp = forest_sprite(levels, mask);
            let (leaves, v) = check_forest(&sp, "exhaustive");
            res.leaves += leaves;
            sprites += 1;
            if let Some(v) = v {
                res.violations.push(v);
                break;
            }
        }
        res.count("exhaustive_sprites", sprites);
        res.count(&format!("sequences_len_{}", n), 1);
        res.outcomes.push("sequence".into());
        if i == nseq - 1 {
            res.sample = Some(json!({"levels": levels, "visible_masks": format!("all {} assignments", 1u64 << n)}));
        }
        res
    });
    // random forests: wide and deep
    let nrand = ctx.tier.pick(1500u64, 20_000u64);
    let rnd = run_stage(ctx, "random-forests", nrand, |i| {
        let mut rng = Rng::derive(ctx.seed, "C09", i);
        let n = match i % 4 {
            0 => rng.range(9, 40),
            1 => rng.range(40, 400),
            2 => rng.range(400, 2000),
            _ => rng.range(9, 1200),
        } as usize;
        // a few forests with more layers than fit in 16 bits (parents / visibility only)
        let n = if i % 500 == 499 { rng.range(65_536, 70_000) as usize } else { n };
        let deep = i % 4 == 3;
        let mut levels: Vec<u16> = Vec::with_capacity(n);
        for k in 0..n {
            let max = if k == 0 { 0 } else { levels[k - 1] + 1 };
            let l = if deep && rng.chance(19, 20) { max } else { rng.range(0, max as i64) as u16 };
            levels.push(l);
        }
        let mut sp = forest_sprite(&levels, 0);
        for l in sp.layers.iter_mut() {
            l.flags = 2 | rng.chance(4, 5) as u16;
        }
        let (leaves, v) = check_forest(&sp, "random");
        let mut res = CaseResult::ok(crate::rng::hash_bytes(&levels.iter().flat_map(|x| x.to_le_bytes()).collect::<Vec<u8>>()) ^ leaves, leaves, "random-forest");
        res.count("random_forest_layers", n as u64);
        res.count("random_forest_max_depth", *levels.iter().max().unwrap() as u64);
        if let Some(v) = v {
            res.violations.push(v);
        }
        if i == 3 {
            res.sample = Some(json!({"random_forest_layers": n, "max_depth": levels.iter().max(), "first_levels": &levels[..levels.len().min(24)]}));
        }
        res
    });
    sum.merge(rnd);
    // ---- the format's extremes: nesting depth 65535 and subtrees with more than 65535 descendants --------
    let nshape = ctx.tier.pick(10u64, 40u64);
    let ext = run_stage(ctx, "extreme-shapes", nshape, |i| {
        let mut rng = Rng::derive(ctx.seed, "C09-extreme", i);
        let (levels, flags, name): (Vec<u16>, Vec<u16>, &str) = match i % 10 {
            0 => ((0..=65_535u32).map(|l| l as u16).collect(), vec![3; 65_536], "chain to depth 65535, all visible"),
            1 => {
                let mut f = vec![3u16; 65_536];
                f[65_535] = 2;
                ((0..=65_535u32).map(|l| l as u16).collect(), f, "chain to depth 65535, only the deepest layer hidden")
            }
            2 => {
                let mut f = vec![3u16; 65_536];
                f[0] = 2;
                ((0..=65_535u32).map(|l| l as u16).collect(), f, "chain to depth 65535, only the root hidden")
            }
            3 => {
                let mut f = vec![3u16; 65_536];
                let k = rng.range(1, 65_534) as usize;
                f[k] = 2;
                ((0..=65_535u32).map(|l| l as u16).collect(), f, "chain to depth 65535, one interior group hidden")
            }
            4 => {
                // hidden root with more than 65535 direct children
                let n = *rng.pick(&[65_537usize, 66_000, 70_000]);
                let mut l = vec![1u16; n];
                l[0] = 0;
                let mut f = vec![3u16; n];
                f[0] = 2;
                (l, f, "hidden root with > 65535 children")
            }
            5 => {
                let n = *rng.pick(&[65_537usize, 66_000, 70_000]);
                let mut l = vec![1u16; n];
                l[0] = 0;
                (l, vec![3u16; n], "visible root with > 65535 children")
            }
            6 => {
                // two-level: hidden root, one visible sub-group holding > 65535 leaves, then a sibling of the root
                let n = 66_100usize;
                let mut l = vec![2u16; n];
                l[0] = 0;
                l[1] = 1;
                l[n - 1] = 0;
                let mut f = vec![3u16; n];
                f[0] = 2;
                (l, f, "hidden root > visible group > 66k leaves, then a top-level sibling")
            }
            7 => {
                // depth 300 chain repeated
                let l: Vec<u16> = (0..3000u32).map(|k| (k % 300) as u16).collect();
                let f: Vec<u16> = (0..3000).map(|_| 2 | rng.chance(19, 20) as u16).collect();
                (l, f, "ten chains of depth 300")
            }
            8 => {
                let n = 65_536usize;
                let l: Vec<u16> = (0..n).map(|k| (k % 2) as u16).collect();
                let f: Vec<u16> = (0..n).map(|_| 2 | rng.chance(3, 4) as u16).collect();
                (l, f, "65536 layers alternating level 0 / 1")
            }
            _ => {
                let n = 65_536usize;
                let l: Vec<u16> = (0..n).map(|k| k.min(65_535) as u16).collect();
                let f: Vec<u16> = (0..n).map(|k| if k % 9000 == 8999 { 2 } else { 3 }).collect();
                (l, f, "chain to depth 65535 with a hidden group every 9000 levels")
            }
        };
        let mut sp = forest_sprite(&levels, 0);
        for (l, fl) in sp.layers.iter_mut().zip(flags.iter()) {
            l.flags = *fl;
        }
        let (leaves, v) = check_forest(&sp, "extreme");
        let mut res = CaseResult::ok(crate::rng::hash_str(name) ^ i, leaves, "extreme-shape");
        res.count("extreme_shape_layers", levels.len() as u64);
        if let Some(v) = v {
            res.violations.push(v);
        }
        if i < 10 {
            res.sample = Some(json!({"extreme_shape": name, "layers": levels.len()}));
        }
        res
    });
    sum.merge(ext);
    // ---- stacked forests: overlapping translucent cels (incl. canvas-sized ones at the origin) and the other
    // layer flag bits (background, lock, collapsed, ...) set at random on any layer of the forest ------------------
    let nstack = ctx.tier.pick(6000u64, 80_000u64);
    let st = run_stage(ctx, "stacked-forests", nstack, |i| {
        let mut rng = Rng::derive(ctx.seed, "C09-stacked", i);
        let n = rng.range(2, 14) as usize;
        let mut levels: Vec<u16> = Vec::with_capacity(n);
        for k in 0..n {
            let max = if k == 0 { 0 } else { levels[k - 1] + 1 };
            levels.push(rng.range(0, max as i64) as u16);
        }
        let (w, h) = (rng.range(1, 4) as u16, rng.range(1, 3) as u16);
        // every third case: two frames, all cels in the second one, and the layer chunks of the upper part of the
        // forest only arrive at the start of that second frame (layer chunks may come in any frame)
        let late_layers = i % 3 == 2 && n >= 2;
        let cel_frame: u16 = if late_layers { 1 } else { 0 };
        let mut res_tilemap_leaves = 0u64;
        let mut sp = Sprite::blank(w, h, Fmt::Rgba, if late_layers { 2 } else { 1 });
        // every other case: one or two tilesets, and leaves that are tilemap layers - several of them on the SAME
        // tileset (visibility belongs to the layer, not to what it draws with)
        let ntilesets = if i % 2 == 1 { rng.range(1, 2) as usize } else { 0 };
        for t in 0..ntilesets {
            let (tw, th, count) = (rng.range(1, 2) as u16, rng.range(1, 2) as u16, rng.range(2, 4) as u32);
            let mut pixels = vec![0u8; tw as usize * th as usize * 4];
            for _ in 0..(count - 1) as usize * tw as usize * th as usize {
                pixels.extend_from_slice(&[rng.u8(), rng.u8(), rng.u8(), *rng.pick(&[255u8, 255, 128, 1])]);
            }
            sp.tilesets.push(TilesetM { id: t as u32, flags: TS_EMBED | TS_ZERO_EMPTY, count, tw, th, base_index: 1, name: format!("ts{}", t), ext: None, pixels });
        }
        for k in 0..n {
            let has_child = k + 1 < n && levels[k + 1] > levels[k];
            let mut l = LayerM::image(&format!("l{}", k));
            l.level = levels[k];
            l.flags = rng.chance(3, 4) as u16 | if rng.chance(1, 3) { (rng.u32() as u16) & 0x3e } else { 2 };
            if has_child {
                l.kind = LayerKind::Group;
            } else if ntilesets > 0 && rng.chance(1, 2) {
                let ts = sp.tilesets[rng.usize_below(ntilesets)].clone();
                l.kind = LayerKind::Tilemap(ts.id);
                if rng.chance(1, 4) {
                    l.opacity = rng.opacity();
                }
                let (mw, mh) = (rng.range(1, 3) as u16, rng.range(1, 3) as u16);
                let tiles: Vec<u32> = (0..mw as usize * mh as usize).map(|_| rng.below(ts.count as u64) as u32).collect();
                sp.cels.insert((cel_frame, k as u16), CelM { x: rng.range(-1, w as i64) as i16, y: rng.range(-1, h as i64) as i16, opacity: if rng.chance(1, 4) { rng.opacity() } else { 255 }, content: CelContentM::Tilemap { w: mw, h: mh, tiles, masks: [0x1fff_ffff, 0x2000_0000, 0x4000_0000, 0x8000_0000] }, ud: None });
                res_tilemap_leaves += 1;
            } else if rng.chance(4, 5) {
                let full = rng.chance(1, 2);
                let (cw, ch, x, y) = if full { (w, h, 0i16, 0i16) } else { (rng.range(1, w as i64) as u16, rng.range(1, h as i64) as u16, rng.range(-1, w as i64) as i16, rng.range(-1, h as i64) as i16) };
                let opaque = rng.chance(1, 3);
                let mut px = Vec::new();
                for _ in 0..cw as usize * ch as usize {
                    px.extend_from_slice(&[rng.u32() as u8, rng.u32() as u8, rng.u32() as u8, if opaque { 255 } else { *rng.pick(&[255u8, 128, 77, 1]) }]);
                }
                if rng.chance(1, 4) {
                    l.opacity = rng.opacity();
                }
                sp.cels.insert((cel_frame, k as u16), CelM { x, y, opacity: if rng.chance(1, 4) { rng.opacity() } else { 255 }, content: CelContentM::Image { w: cw, h: ch, pixels: px }, ud: None });
            }
            sp.layers.push(l);
        }
        // sixth round: a last frame in which most of the cels come back as LINKED cels (fields as Aseprite writes them:
        // those of the target) - a hidden group hides a linked cel as it hides any other
        let link_frame = sp.durations.len() as u16;
        sp.durations.push(100);
        let celled: Vec<u16> = sp.cels.keys().filter(|k| k.0 == cel_frame).map(|k| k.1).collect();
        for k in celled {
            if rng.chance(2, 3) {
                let t = sp.cels[&(cel_frame, k)].clone();
                sp.cels.insert((link_frame, k), CelM { x: t.x, y: t.y, opacity: t.opacity, content: CelContentM::Link(cel_frame), ud: None });
            }
        }
        let mut r2 = Rng::new(i);
        let mut v = Variation::none();
        v.default_storage = if i % 2 == 0 { Storage::Raw } else { Storage::Zlib(6) };
        let mut spec = compile(&sp, &mut r2, &v);
        if late_layers {
            // move the layer chunks of layers split.. from frame 0 to the front of frame 1 (keeping their order)
            let split = 1 + rng.usize_below(n - 1);
            let mut seen = 0usize;
            let mut moved: Vec<ChunkItem> = Vec::new();
            let mut kept: Vec<ChunkItem> = Vec::new();
            for c in std::mem::take(&mut spec.frames[0].chunks) {
                if matches!(c.spec, ChunkSpec::Layer { .. }) {
                    seen += 1;
                    if seen > split {
                        moved.push(c);
                        continue;
                    }
                }
                kept.push(c);
            }
            spec.frames[0].chunks = kept;
            let tail = std::mem::take(&mut spec.frames[1].chunks);
            spec.frames[1].chunks = moved;
            spec.frames[1].chunks.extend(tail);
        }
        let (bytes, _) = encode(&spec);
        let mut res = CaseResult::ok(crate::gen::features(&sp), 0, "stacked-forest");
        let flags: Vec<u16> = sp.layers.iter().map(|l| l.flags).collect();
        match load(&bytes) {
            Err(e) => res.violations.push(Violation::new(format!("load-failed|stacked|{}", err_sig(&e)), format!("forest failed to load: {}", e)).with_input(&bytes)),
            Ok(ase) => {
                let parents = sp.parents();
                let visible = sp.visible();
                for k in 0..n {
                    let l = ase.layer(k as u32);
                    if l.parent().map(|p| p.id() as usize) != parents[k] || l.is_visible() != visible[k] {
                        res.violations.push(Violation::new("parent-or-visibility|stacked", format!("layer {}: parent {:?} visible {} expected {:?} / {} (levels {:?} flags {:?})", k, l.parent().map(|p| p.id()), l.is_visible(), parents[k], visible[k], levels, flags)).with_input(&bytes));
                        return res;
                    }
                    if let Some(d) = ancestor_handles_differ(&ase, k as u32) {
                        res.violations.push(Violation::new("parent-handle|stacked", format!("{} (levels {:?} flags {:?})", d, levels, flags)).with_input(&bytes));
                        return res;
                    }
                    res.leaves += 2;
                }
                for fr in [cel_frame, link_frame] {
                    let got = crate::val::Img::from_rgba(&ase.frame(fr as u32).image(), true);
                    let want = crate::refrender::render_frame(&sp, fr);
                    if let Some(d) = crate::val::diff(&crate::val::V::Img(got), &crate::val::V::Img(want)) {
                        let hidden_celled: Vec<usize> = (0..n).filter(|k| !visible[*k] && sp.cels.contains_key(&(fr, *k as u16))).collect();
                        res.violations.push(Violation::new(if fr == cel_frame { "hidden-layer-contributes-or-visible-missing|stacked" } else { "hidden-layer-contributes-or-visible-missing|stacked-linked-cels" }, format!("frame {} image differs from the composition of the visible layers only: {} (levels {:?} flags {:?}; hidden layers with cels: {:?})", fr, d, levels, flags, hidden_celled)).with_input(&bytes).with_extra(json!({"levels": levels, "flags": flags})));
                        break;
                    }
                }
                res.count("stacked_linked_cels", sp.cels.keys().filter(|k| k.0 == link_frame).count() as u64);
                res.leaves += w as u64 * h as u64;
                res.count("stacked_tilemap_leaves", res_tilemap_leaves);
                res.count("stacked_hidden_celled_layers", (0..n).filter(|k| !visible[*k] && sp.cels.contains_key(&(cel_frame, *k as u16))).count() as u64);
                if late_layers {
                    res.count("stacked_layer_chunks_across_frames", 1);
                }
                res.count("stacked_background_flag_nested", (0..n).filter(|k| levels[*k] > 0 && flags[*k] & 8 != 0).count() as u64);
            }
        }
        res
    });
    sum.merge(st);
    let exhaustive_sprites = sum.counters.get("exhaustive_sprites").cloned().unwrap_or(0);
    finish(
        ctx,
        sum,
        Finish {
            rule: "EXHAUSTIVE: every level sequence of length 1..8 with level[0]=0 and level[i]<=level[i-1]+1 (2055 sequences) x every assignment of visible flags (431058 sprites); each leaf owns a 1x1 opaque cel of unique colour at x = its index; then random forests of 9..2000 layers (a few of 65536-70000) incl. deep chains; chains to depth 65535 and subtrees of > 65535 layers; stacked forests of 2..14 layers with overlapping translucent / canvas-sized cels and random other flag bits (background, lock, collapsed) on any layer, every other case with tilemap leaves sharing tilesets; every handle reached through parent() compared accessor by accessor with file.layer(id); frame image compared with the reference composition of the visible layers; distinct = distinct level sequence".into(),
            coverage_extra: json!({"exhaustive_sequences": nseq, "exhaustive_sprites": exhaustive_sprites, "random_forests": nrand}),
            assumptions: vec![],
            exhaustive: true,
            min_evaluations: 2055,
        },
    )
}
