//! C09 — layer parents and visibility follow the nesting levels.
//! Exhaustive over every forest-shaped level sequence of up to 8 layers and
//! every assignment of visible flags; random deep / wide forests in addition.

use crate::common::*;
use crate::encode::encode;
use crate::model::*;
use crate::program::{compile, Variation};
use crate::rng::Rng;
use crate::util::*;
use serde_json::json;

/// all level sequences of length n with level[0]=0 and level[i] <= level[i-1]+1
pub fn level_sequences(n: usize) -> Vec<Vec<u16>> {
    let mut out = Vec::new();
    fn rec(cur: &mut Vec<u16>, n: usize, out: &mut Vec<Vec<u16>>) {
        if cur.len() == n {
            out.push(cur.clone());
            return;
        }
        let max = if cur.is_empty() { 0 } else { cur[cur.len() - 1] + 1 };
        for l in 0..=max {
            cur.push(l);
            rec(cur, n, out);
            cur.pop();
        }
    }
    rec(&mut Vec::new(), n, &mut out);
    out
}

fn forest_sprite(levels: &[u16], vis_mask: u64) -> Sprite {
    let n = levels.len();
    // very large forests carry no pixels (x offsets are i16, the canvas u16)
    let pixels = n <= 20_000;
    let mut sp = Sprite::blank(if pixels { n as u16 } else { 1 }, 1, Fmt::Rgba, 1);
    for i in 0..n {
        let has_child = i + 1 < n && levels[i + 1] > levels[i];
        let mut l = LayerM::image(&format!("l{}", i));
        l.level = levels[i];
        l.flags = 2 | ((vis_mask >> (i % 64)) & 1) as u16;
        if has_child {
            l.kind = LayerKind::Group;
        } else if pixels {
            // unique opaque colour at x = layer index
            let col = [(i * 37 % 251) as u8 + 1, (i / 251) as u8, (i % 7) as u8 * 30 + 5, 255];
            sp.cels.insert((0, i as u16), CelM { x: i as i16, y: 0, opacity: 255, content: CelContentM::Image { w: 1, h: 1, pixels: col.to_vec() }, ud: None });
        }
        sp.layers.push(l);
    }
    sp
}

fn check_forest(sp: &Sprite, what: &str) -> (u64, Option<Violation>) {
    let mut rng = Rng::new(1);
    let mut v = Variation::none();
    v.default_storage = Storage::Raw;
    let (bytes, _) = encode(&compile(sp, &mut rng, &v));
    let levels: Vec<u16> = sp.layers.iter().map(|l| l.level).collect();
    let flags: Vec<u16> = sp.layers.iter().map(|l| l.flags & 1).collect();
    let mk = |sig: &str, detail: String| Some(Violation::new(format!("{}|{}", sig, what), detail).with_input(&bytes).with_extra(json!({"levels": levels, "visible_flags": flags})));
    let ase = match load(&bytes) {
        Ok(a) => a,
        Err(e) => return (0, mk("load-failed", format!("forest failed to load: {}", e))),
    };
    let n = sp.layers.len();
    // direct computation from the level sequence
    let parents = sp.parents();
    let visible = sp.visible();
    let mut leaves = 0;
    if ase.num_layers() as usize != n {
        return (0, mk("num-layers", format!("{} layers, expected {}", ase.num_layers(), n)));
    }
    for i in 0..n {
        let l = ase.layer(i as u32);
        let p = l.parent().map(|p| p.id() as usize);
        if p != parents[i] {
            return (leaves, mk("parent", format!("layer {} parent {:?}, expected {:?} (levels {:?})", i, p, parents[i], levels)));
        }
        if let Some(p) = p {
            if p >= i {
                return (leaves, mk("parent-order", format!("layer {} has parent {} >= itself", i, p)));
            }
        }
        if l.is_visible() != visible[i] {
            return (leaves, mk("is-visible", format!("layer {} is_visible {} expected {} (levels {:?} flags {:?})", i, l.is_visible(), visible[i], levels, flags)));
        }
        leaves += 2;
    }
    if n > 20_000 {
        return (leaves, None);
    }
    let img = ase.frame(0).image();
    if img.width() as usize != n.min(65535) || img.height() != 1 {
        return (leaves, mk("frame-dim", format!("frame image {}x{}", img.width(), img.height())));
    }
    for i in 0..n {
        let px = img.get_pixel(i as u32, 0).0;
        let cel = sp.cels.get(&(0, i as u16));
        let expect_visible = cel.is_some() && visible[i];
        if expect_visible {
            if let Some(CelM { content: CelContentM::Image { pixels, .. }, .. }) = cel {
                if px[..] != pixels[..] {
                    return (leaves, mk("visible-pixel", format!("pixel {} = {:?}, expected visible layer colour {:?}", i, px, pixels)));
                }
            }
        } else if px[3] != 0 {
            return (leaves, mk("hidden-pixel", format!("pixel {} = {:?} although layer {} is hidden (own flag {}, levels {:?}, flags {:?})", i, px, i, flags[i], levels, flags)));
        }
        leaves += 1;
    }
    (leaves, None)
}

pub fn run(ctx: &Ctx) -> i32 {
    // exhaustive part
    let mut seqs: Vec<Vec<u16>> = Vec::new();
    for n in 1..=8 {
        seqs.extend(level_sequences(n));
    }
    let nseq = seqs.len() as u64;
    let mut sum = run_cases(ctx, nseq, |i| {
        let levels = &seqs[i as usize];
        let n = levels.len();
        let mut res = CaseResult::default();
        res.nontrivial = true;
        res.feature = crate::rng::hash_bytes(&levels.iter().map(|x| *x as u8).collect::<Vec<u8>>());
        let mut sprites = 0u64;
        for mask in 0..(1u64 << n) {
            let sp = forest_sprite(levels, mask);
            let (leaves, v) = check_forest(&sp, "exhaustive");
            res.leaves += leaves;
            sprites += 1;
            if let Some(v) = v {
                res.violations.push(v);
                break;
            }
        }
        res.count("exhaustive_sprites", sprites);
        res.count(&format!("sequences_len_{}", n), 1);
        res.outcomes.push("sequence".into());
        if i == nseq - 1 {
            res.sample = Some(json!({"levels": levels, "visible_masks": format!("all {} assignments", 1u64 << n)}));
        }
        res
    });
    // random forests: wide and deep
    let nrand = ctx.tier.pick(1500u64, 20_000u64);
    let rnd = run_stage(ctx, "random-forests", nrand, |i| {
        let mut rng = Rng::derive(ctx.seed, "C09", i);
        let n = match i % 4 {
            0 => rng.range(9, 40),
            1 => rng.range(40, 400),
            2 => rng.range(400, 2000),
            _ => rng.range(9, 1200),
        } as usize;
        // a few forests with more layers than fit in 16 bits (parents / visibility only)
        let n = if i % 500 == 499 { rng.range(65_536, 70_000) as usize } else { n };
        let deep = i % 4 == 3;
        let mut levels: Vec<u16> = Vec::with_capacity(n);
        for k in 0..n {
            let max = if k == 0 { 0 } else { levels[k - 1] + 1 };
            let l = if deep && rng.chance(19, 20) { max } else { rng.range(0, max as i64) as u16 };
            levels.push(l);
        }
        let mut sp = forest_sprite(&levels, 0);
        for l in sp.layers.iter_mut() {
            l.flags = 2 | rng.chance(4, 5) as u16;
        }
        let (leaves, v) = check_forest(&sp, "random");
        let mut res = CaseResult::ok(crate::rng::hash_bytes(&levels.iter().flat_map(|x| x.to_le_bytes()).collect::<Vec<u8>>()) ^ leaves, leaves, "random-forest");
        res.count("random_forest_layers", n as u64);
        res.count("random_forest_max_depth", *levels.iter().max().unwrap() as u64);
        if let Some(v) = v {
            res.violations.push(v);
        }
        if i == 3 {
            res.sample = Some(json!({"random_forest_layers": n, "max_depth": levels.iter().max(), "first_levels": &levels[..levels.len().min(24)]}));
        }
        res
    });
    sum.merge(rnd);
    let exhaustive_sprites = sum.counters.get("exhaustive_sprites").cloned().unwrap_or(0);
    finish(
        ctx,
        sum,
        Finish {
            rule: "EXHAUSTIVE: every level sequence of length 1..8 with level[0]=0 and level[i]<=level[i-1]+1 (2055 sequences) x every assignment of visible flags (431058 sprites); each leaf owns a 1x1 opaque cel of unique colour at x = its index; then random forests of 9..2000 layers incl. deep chains; distinct = distinct level sequence".into(),
            coverage_extra: json!({"exhaustive_sequences": nseq, "exhaustive_sprites": exhaustive_sprites, "random_forests": nrand}),
            assumptions: vec![],
            exhaustive: true,
            min_evaluations: 2055,
        },
    )
}
