//! C13 — truncated files are rejected, never loaded as a smaller sprite.
//! Fault enumeration over crash points: EVERY cut offset of every file.

use crate::common::*;
use crate::encode::{encode, walk_file};
use crate::gen::{self, GenCfg};
use crate::program::{compile_with, Variation};
use crate::readers::Logging;
use crate::rng::Rng;
use crate::util::*;
use asefile::AsepriteFile;
use serde_json::json;

/// Try every cut in `cuts`; returns (loads tried, error histogram, first violation)
fn enumerate(bytes: &[u8], cuts: &mut dyn Iterator<Item = usize>, what: &str, res: &mut CaseResult) {
    let mut tried = 0u64;
    let mut hist: std::collections::BTreeMap<&'static str, u64> = Default::default();
    for cut in cuts {
        tried += 1;
        match load(&bytes[..cut]) {
            Err(e) => *hist.entry(err_variant(&e)).or_insert(0) += 1,
            Ok(ase) => {
                if res.violations.is_empty() {
                    res.violations.push(
                        Violation::new(format!("truncated-file-loads|{}", what), format!("prefix of {} bytes (of {}) loaded as a sprite with {} frames, {} layers", cut, bytes.len(), ase.num_frames(), ase.num_layers()))
                            .with_input(&bytes[..cut])
                            .with_extra(json!({"cut": cut, "full_len": bytes.len(), "frames": ase.num_frames(), "layers": ase.num_layers()})),
                    );
                }
                *hist.entry("Ok(VIOLATION)").or_insert(0) += 1;
            }
        }
    }
    res.leaves += tried;
    res.count("prefix_loads", tried);
    for (k, v) in hist {
        res.count(&format!("prefix_result:{}", k), v);
    }
}

pub fn run(ctx: &Ctx) -> i32 {
    let nfiles = ctx.tier.pick(2_000u64, 20_000u64);
    let mut sum = run_cases(ctx, nfiles, |i| {
        let mut rng = Rng::derive(ctx.seed, "C13", i);
        let mut cfg = GenCfg::small();
        cfg.max_w = 12;
        cfg.max_h = 12;
        cfg.max_cel = 8;
        cfg.extremes = false;
        cfg.max_layers = 5;
        cfg.max_frames = 4;
        let (sp, palprog) = gen::gen_sprite(&mut rng, &cfg);
        // program choices vary (they move the read sites), but no trailing bytes / in-frame slack
        let mut v = Variation::none();
        v.storage = rng.chance(1, 2);
        v.count_style = rng.chance(1, 2);
        v.ignorable = rng.chance(1, 2);
        v.padding = rng.chance(1, 3);
        v.junk = rng.chance(1, 2);
        v.legacy_pal = rng.chance(1, 3);
        let (bytes, map) = encode(&compile_with(&sp, &mut rng, &v, &palprog));
        let mut res = CaseResult::ok(crate::rng::hash_bytes(&bytes), 0, "generated-file");
        if bytes.len() > 16 * 1024 {
            res.outcomes = vec!["skipped:over-16KiB".into()];
            res.nontrivial = false;
            return res;
        }
        // the complete file must load (otherwise it is not a "valid file")
        let mut lg = Logging::new(&bytes, false);
        match AsepriteFile::read(&mut lg) {
            Ok(_) => {}
            Err(e) => {
                res.violations.push(Violation::new(format!("load-failed|complete-file|{}", err_sig(&e)), format!("complete generated file failed to load: {}", e)).with_input(&bytes));
                return res;
            }
        }
        res.count("read_calls_of_complete_loads", lg.calls);
        res.count("file_bytes", bytes.len() as u64);
        let end = map.end_of_frames;
        enumerate(&bytes, &mut (0..end), "generated", &mut res);
        if i == 0 {
            res.sample = Some(json!({"file_len": bytes.len(), "cuts": format!("every offset 0..{}", end), "model": sprite_summary(&sp), "program": v.describe()}));
        }
        res
    });
    // ---- big tails: the last chunk of the last frame carries > 64 KiB that no decoder inspects ---------------
    let nbig = ctx.tier.pick(4u64, 24u64);
    let big = run_stage(ctx, "big-tail", nbig, |i| {
        use crate::model::*;
        let mut rng = Rng::derive(ctx.seed, "C13-big", i);
        let mut cfg = GenCfg::tiny();
        cfg.max_frames = 2;
        let (sp, palprog) = gen::gen_sprite(&mut rng, &cfg);
        let mut spec = compile_with(&sp, &mut rng, &Variation::none(), &palprog);
        let n = *rng.pick(&[65_531usize, 65_537, 70_000, 131_080]);
        let last = spec.frames.len() - 1;
        let tail = match i % 3 {
            0 => ChunkSpec::Ignorable { ty: 0x2017, data: rng.bytes(n) },
            1 => ChunkSpec::Ignorable { ty: 0x2016, data: rng.bytes(n) },
            _ => ChunkSpec::Ignorable { ty: 0x2006, data: rng.bytes(n) },
        };
        spec.frames[last].chunks.push(tail.into());
        let (bytes, map) = encode(&spec);
        let mut res = CaseResult::ok(crate::rng::hash_bytes(&bytes), 0, "big-tail-file");
        if load(&bytes).is_err() {
            res.outcomes = vec!["skipped:does-not-load".into()];
            res.nontrivial = false;
            return res;
        }
        // every offset of the first 2 KiB and of the last 2 KiB, every 61st in between
        let end = map.end_of_frames;
        let off = ctx.seed as usize % 61;
        let mut it = (0..end).filter(|o| *o < 2048 || *o + 2048 >= end || *o % 61 == off);
        enumerate(&bytes, &mut it, "big-tail", &mut res);
        if i == 0 {
            res.sample = Some(json!({"big_tail_file_len": bytes.len(), "last_chunk_payload": n}));
        }
        res
    });
    sum.merge(big);
    // ---- last frames with 65535 .. 70000 chunks: the count needs the 32-bit field; meaningful chunks sit at the very end ----
    let nmany = ctx.tier.pick(4u64, 16u64);
    let many = run_stage(ctx, "many-chunk-last-frame", nmany, |i| {
        let mut rng = Rng::derive(ctx.seed, "C13-many", i);
        let mut cfg = GenCfg::tiny();
        cfg.max_frames = 2;
        cfg.max_layers = 3;
        let (sp, palprog) = gen::gen_sprite(&mut rng, &cfg);
        let mut spec = compile_with(&sp, &mut rng, &Variation::none(), &palprog);
        let last = spec.frames.len() - 1;
        let total = [65_535usize, 65_536, 65_538, 70_000][(i % 4) as usize];
        // the frame's own chunks (cels, user data; in frame 0 also layers, tags, slices) stay behind the padding
        let keep = spec.frames[last].chunks.len().min(1 + (i as usize / 4) % 4);
        crate::program::pad_frame(&mut spec, last, total, keep, &mut rng);
        let (bytes, map) = encode(&spec);
        let mut res = CaseResult::ok(crate::rng::hash_bytes(&bytes), 0, "many-chunk-last-frame-file");
        if let Err(e) = load(&bytes) {
            res.violations.push(Violation::new(format!("load-failed|complete-file|{}", err_sig(&e)), format!("complete file whose last frame has {} chunks failed to load: {}", total, e)).with_input(&bytes));
            return res;
        }
        // every offset of the first 512 bytes and of the last 1024, every 997th in between
        let end = map.end_of_frames;
        let off = ctx.seed as usize % 997;
        let mut it = (0..end).filter(|o| *o < 512 || *o + 1024 >= end || *o % 997 == off);
        enumerate(&bytes, &mut it, "many-chunk-last-frame", &mut res);
        res.count("many_chunk_last_frame_chunks", total as u64);
        res
    });
    sum.merge(many);
    // corpus
    let corpus = crate::corpus::list(ctx);
    let thorough = ctx.tier == Tier::Thorough;
    // big corpus files are split into offset ranges so all cores share them
    let mut jobs: Vec<(usize, usize, usize)> = Vec::new(); // (file, from, to)
    for (fi, (_n, b)) in corpus.iter().enumerate() {
        let end = walk_file(b).map(|m| m.end_of_frames).unwrap_or(b.len());
        let step = 65536;
        let mut a = 0;
        while a < end {
            jobs.push((fi, a, (a + step).min(end)));
            a += step;
        }
    }
    let cs = run_stage(ctx, "corpus", jobs.len() as u64, |j| {
        let (fi, from, to) = jobs[j as usize];
        let (name, bytes) = &corpus[fi];
        let mut res = CaseResult::ok(crate::rng::hash_bytes(&bytes[..bytes.len().min(4096)]) ^ from as u64, 0, "corpus-range");
        let map = walk_file(bytes);
        let small = bytes.len() <= 64 * 1024;
        if small || thorough {
            enumerate(bytes, &mut (from..to), &format!("corpus:{}", name), &mut res);
        } else {
            // every offset inside headers / chunk headers, every 97th inside payloads
            let mut hdr = vec![false; to - from];
            if let Some(m) = &map {
                for (_, _, _, cstart, _) in &m.chunks {
                    for o in *cstart..(*cstart + 40) {
                        if o >= from && o < to {
                            hdr[o - from] = true;
                        }
                    }
                }
                for (_, fstart, _) in &m.frames {
                    for o in *fstart..(*fstart + 16) {
                        if o >= from && o < to {
                            hdr[o - from] = true;
                        }
                    }
                }
            }
            let mut it = (from..to).filter(|o| *o < 128 || hdr[*o - from] || *o % 97 == (ctx.seed as usize % 97));
            enumerate(bytes, &mut it, &format!("corpus:{}", name), &mut res);
        }
        if from == 0 {
            res.count("corpus_files", 1);
        }
        res
    });
    sum.merge(cs);
    finish(
        &Ctx { level: "fault_enumeration", ..ctx.clone() },
        sum,
        Finish {
            rule: "crash points = cut offsets. For every generated file (<= 16 KiB, random neutral program choices, no trailing bytes): EVERY strict prefix 0..end-of-last-frame is loaded and must return Err; corpus: every offset of the small files; big blend files: every offset in frame/chunk headers + every 97th payload offset (quick) or every offset (thorough). distinct = distinct files / corpus offset ranges; evaluations = files + ranges; prefix_loads = individual prefixes tried".into(),
            coverage_extra: json!({"corpus_files": corpus.len(), "generated_files": nfiles}),
            assumptions: vec!["'valid file' = frame byte counts equal header + sum of chunk sizes (what writers emit); the complete file is required to load first".into()],
            exhaustive: thorough,
            min_evaluations: 50,
        },
    )
}
