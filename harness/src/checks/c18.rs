//! C18 — utility helpers (feature `utils`): extrude_border, PaletteMapper, to_indexed_image.

use crate::common::*;
use crate::encode::encode;
use crate::gen::{self, GenCfg};
use crate::model::*;
use crate::program::{compile_with, PaletteProgram, Variation};
use crate::rng::Rng;
use crate::util::*;
use asefile::util::{extrude_border, to_indexed_image, MappingOptions, PaletteMapper};
use image::RgbaImage;
use serde_json::json;
use std::collections::BTreeMap;

fn check_extrude(rng: &mut Rng, res: &mut CaseResult) {
    let (w, h) = match rng.below(40) {
        6 => (rng.range(256, 400) as u32, rng.range(1, 3) as u32),
        7 => (rng.range(1, 3) as u32, rng.range(256, 400) as u32),
        8 => (*rng.pick(&[65_535u32, 65_536, 70_000]), 1),
        9 => (1, *rng.pick(&[65_535u32, 65_536, 70_000])),
        10 => (rng.range(256, 300) as u32, rng.range(256, 300) as u32),
        x if x > 10 => (rng.range(1, 64) as u32, rng.range(1, 64) as u32),
        0 => (1, 1),
        1 => (1, rng.range(1, 64) as u32),
        2 => (rng.range(1, 64) as u32, 1),
        3 => (2, 2),
        _ => (rng.range(1, 64) as u32, rng.range(1, 64) as u32),
    };
    let data = rng.bytes((w * h * 4) as usize);
    let img = RgbaImage::from_raw(w, h, data.clone()).unwrap();
    let out = extrude_border(img.clone());
    res.count("extrude_images", 1);
    if out.dimensions() != (w + 2, h + 2) {
        res.violations.push(Violation::new("extrude|dimensions", format!("extrude_border of {}x{} returned {}x{}", w, h, out.width(), out.height())));
        return;
    }
    for y in 0..h + 2 {
        for x in 0..w + 2 {
            let sx = (x as i64 - 1).clamp(0, w as i64 - 1) as u32;
            let sy = (y as i64 - 1).clamp(0, h as i64 - 1) as u32;
            if out.get_pixel(x, y) != img.get_pixel(sx, sy) {
                res.violations.push(Violation::new("extrude|pixel", format!("extrude_border of {}x{}: pixel ({},{}) = {:?}, expected input pixel ({},{}) = {:?}", w, h, x, y, out.get_pixel(x, y), sx, sy, img.get_pixel(sx, sy))).with_input(&data));
                return;
            }
            res.leaves += 1;
        }
    }
}

/// Palettes are obtained by loading generated files (the API offers no constructor).
fn load_palette(rng: &mut Rng, pal: &BTreeMap<u32, PalEntryM>) -> Option<asefile::AsepriteFile> {
    let mut sp = Sprite::blank(1, 1, Fmt::Rgba, 1);
    sp.layers.push(LayerM::image("l"));
    sp.palette = Some(pal.clone());
    let bytes = encode(&compile_with(&sp, rng, &Variation::none(), &PaletteProgram::Auto)).0;
    load(&bytes).ok()
}

fn check_mapper(rng: &mut Rng, res: &mut CaseResult) {
    let cfg = GenCfg::tiny();
    // palettes with duplicates, ids >= 256, sparse starts
    let mut pal = gen::gen_palette(rng, &cfg, false);
    if rng.chance(1, 8) {
        // the palettes people actually make: ramps. The identity gray ramp (what converting a grayscale sprite gives),
        // shorter / reversed / tinted ramps and single-channel ramps; the +-1 near misses below then are colours that
        // share one or two channels with an entry without being in the palette
        pal.clear();
        let n = *rng.pick(&[256u32, 256, 255, 128, 64, 16, 257]);
        let style = rng.below(5);
        for i in 0..n {
            let v = (if n <= 256 { i * 255 / (n - 1).max(1) } else { i.min(255) }) as u8;
            let v = if n == 256 || n == 257 { i.min(255) as u8 } else { v };
            let rgba = match style {
                0 | 1 => [v, v, v, 255],
                2 => [255 - v, 255 - v, 255 - v, 255],
                3 => [v, 0, 0, 255],
                _ => [v, v, v ^ 1, 255],
            };
            pal.insert(i, PalEntryM { rgba, name: None });
        }
        res.count("ramp_palettes", 1);
    } else if rng.chance(1, 2) {
        // inject duplicates: below/below, below/above, above/above 256
        let keys: Vec<u32> = pal.keys().cloned().collect();
        for _ in 0..rng.range(1, 6) {
            let a = *rng.pick(&keys);
            let b = *rng.pick(&keys);
            let c = pal[&a].rgba;
            pal.get_mut(&b).unwrap().rgba = [c[0], c[1], c[2], pal[&b].rgba[3]];
        }
    }
    if rng.chance(1, 2) {
        // pure black / white are the most common palette entries in practice
        let keys: Vec<u32> = pal.keys().cloned().collect();
        let k = *rng.pick(&keys);
        pal.get_mut(&k).unwrap().rgba = [0, 0, 0, *rng.pick(&[255u8, 255, 128])];
        if keys.len() > 1 && rng.chance(1, 2) {
            let k2 = *rng.pick(&keys);
            if k2 != k {
                pal.get_mut(&k2).unwrap().rgba = [255, 255, 255, 255];
            }
        }
    }
    let ase = match load_palette(rng, &pal) {
        Some(a) => a,
        None => {
            res.inconclusive = Some("palette file failed to load".into());
            return;
        }
    };
    let p = ase.palette().unwrap();
    let failure = rng.u8();
    let transparent = if rng.chance(1, 2) { Some(rng.u8()) } else { None };
    // every other case: another mapper with OTHER options was built on the same palette before (and one after):
    // a mapper's answers depend on its own options only
    let earlier = if rng.chance(1, 2) { Some(PaletteMapper::new(p, MappingOptions { failure: failure.wrapping_add(77), transparent: Some(failure.wrapping_add(3)) })) } else { None };
    let mapper = PaletteMapper::new(p, MappingOptions { failure, transparent });
    let _later = PaletteMapper::new(p, MappingOptions { failure: failure.wrapping_add(1), transparent: None });
    if earlier.is_some() {
        res.count("mappers_built_after_another_mapper_on_the_same_palette", 1);
    }
    res.count("mappers", 1);
    // allowed answers per the statement
    let below: Vec<(u32, [u8; 4])> = pal.iter().filter(|(k, _)| **k < 256).map(|(k, e)| (*k, e.rgba)).collect();
    let above: Vec<[u8; 4]> = pal.iter().filter(|(k, _)| **k >= 256).map(|(_, e)| e.rgba).collect();
    let mut queries: Vec<[u8; 4]> = Vec::new();
    for e in pal.values() {
        let c = e.rgba;
        queries.push([c[0], c[1], c[2], 255]);
        for a in [0u8, 1, 254] {
            queries.push([c[0], c[1], c[2], a]);
        }
        queries.push([c[0].wrapping_add(1), c[1], c[2], 255]);
        queries.push([c[0], c[1].wrapping_sub(1), c[2], 255]);
        queries.push([c[0], c[1], c[2] ^ 1, 255]);
        // channel-swapped colour (catches r/b packing slips)
        queries.push([c[2], c[1], c[0], 255]);
    }
    for _ in 0..32 {
        queries.push([rng.u8(), rng.u8(), rng.u8(), *rng.pick(&[0u8, 1, 254, 255, 255])]);
    }
    for q in &queries {
        let got = mapper.lookup(q[0], q[1], q[2], q[3]);
        res.leaves += 1;
        let allowed: Vec<u8> = if q[3] != 255 {
            vec![transparent.unwrap_or(failure)]
        } else {
            let lows: Vec<u8> = below.iter().filter(|(_, c)| c[0] == q[0] && c[1] == q[1] && c[2] == q[2]).map(|(k, _)| *k as u8).collect();
            let high = above.iter().any(|c| c[0] == q[0] && c[1] == q[1] && c[2] == q[2]);
            if lows.is_empty() {
                vec![failure]
            } else if high {
                // present both below and at/above 256: not "all occurrences below 256", so the statement's
                // "otherwise" applies - the failure index (and not whichever entry a hash order visits last)
                res.count("queries_colour_below_and_above_256", 1);
                vec![failure]
            } else {
                lows
            }
        };
        if !allowed.contains(&got) {
            res.violations.push(
                Violation::new(
                    format!("mapper|{}", if q[3] != 255 { "transparent" } else if allowed == vec![failure] && below.iter().any(|(_, c)| c[0] == q[0] && c[1] == q[1] && c[2] == q[2]) { "colour-also-at-index-above-255" } else if allowed == vec![failure] { "absent-colour" } else { "present-colour" }),
                    format!("PaletteMapper::lookup{:?} = {} but allowed answers are {:?} (failure index {}, transparent option {:?}, palette of {} entries from {})", q, got, &allowed[..allowed.len().min(8)], failure, transparent, pal.len(), pal.keys().next().unwrap()),
                )
                .with_extra(json!({"query": q, "got": got, "failure": failure, "transparent": transparent})),
            );
            return;
        }
    }
    // to_indexed_image: dimensions + row-major order
    // now and then an image of 2^16 .. 2^17 pixels (rarely 2^20) whose pixel count is no multiple of 2, 4 or 8: whatever
    // way a conversion splits its work, the last pixels are still one index per pixel
    let big = rng.chance(1, 160);
    let (w, h) = if big {
        if rng.chance(1, 12) { (rng.range(1000, 1100) as u32 | 1, rng.range(1000, 1100) as u32 | 1) } else { (rng.range(255, 300) as u32, rng.range(257, 300) as u32) }
    } else if rng.chance(1, 20) { if rng.chance(1, 2) { (rng.range(256, 400) as u32, 1) } else { (2, rng.range(256, 400) as u32) } } else { (rng.range(1, 12) as u32, rng.range(1, 12) as u32) };
    let mut img = RgbaImage::new(w, h);
    let lead = rng.below(4);
    for y in 0..h {
        for x in 0..w {
            let mut q = *rng.pick(&queries);
            // images often start with a run of black (or transparent, then black) pixels
            if y == 0 && (x as u64) < lead {
                q = if lead == 3 && x == 0 { [0, 0, 0, 0] } else { [0, 0, 0, 255] };
            }
            img.put_pixel(x, y, image::Rgba(q));
        }
    }
    // an image may own a buffer longer than its pixels need (RgbaImage::from_raw accepts that): one index per PIXEL
    let img = if rng.chance(1, 3) {
        let mut raw = img.into_raw();
        let extra = *rng.pick(&[4usize, 8, 64, 3]);
        raw.extend(rng.bytes(extra));
        res.count("indexed_images_with_oversized_buffer", 1);
        RgbaImage::from_raw(w, h, raw).expect("a longer buffer is a valid image buffer")
    } else {
        img
    };
    let ((ow, oh), data) = to_indexed_image(img.clone(), &mapper);
    res.count("indexed_images", 1);
    if big {
        res.count("indexed_images_of_65536_pixels_or_more", 1);
    }
    if (ow, oh) != (w, h) || data.len() != (w * h) as usize {
        res.violations.push(Violation::new("to_indexed|dimensions", format!("to_indexed_image of {}x{} returned dims {}x{} and {} indices", w, h, ow, oh, data.len())));
        return;
    }
    for y in 0..h {
        for x in 0..w {
            let q = img.get_pixel(x, y).0;
            let want = mapper.lookup(q[0], q[1], q[2], q[3]);
            if data[(y * w + x) as usize] != want {
                res.violations.push(Violation::new("to_indexed|order", format!("to_indexed_image {}x{}: index at row-major position ({},{}) is {}, lookup of that pixel gives {}", w, h, x, y, data[(y * w + x) as usize], want)));
                return;
            }
            res.leaves += 1;
        }
    }
}

pub fn run(ctx: &Ctx) -> i32 {
    let n = ctx.tier.pick(100_000u64, 1_000_000u64);
    let sum = run_cases(ctx, n, |i| {
        let mut rng = Rng::derive(ctx.seed, "C18", i);
        let mut res = CaseResult::default();
        res.nontrivial = true;
        res.feature = crate::rng::mix(i ^ ctx.seed.wrapping_mul(77)) | 1;
        if i % 2 == 0 {
            res.outcomes.push("extrude".into());
            check_extrude(&mut rng, &mut res);
        } else {
            res.outcomes.push("palette-mapper".into());
            check_mapper(&mut rng, &mut res);
        }
        if i < 2 {
            res.sample = Some(json!({"case": i, "kind": if i % 2 == 0 { "extrude_border on a random w x h image, every output pixel vs the clamp formula" } else { "PaletteMapper over a generated palette: every palette colour, near misses, alpha 0/1/254, random colours; then to_indexed_image" }}));
        }
        res
    });
    // feature gate: the crate must still build without `utils` (checked by the driver: cargo check in /repo)
    finish(
        ctx,
        sum,
        Finish {
            rule: "even cases: extrude_border on random images 1x1..64x64 incl. 1xN / Nx1, every output pixel compared with the clamp formula; odd cases: PaletteMapper over palettes obtained by loading generated files (duplicates, ids >= 256, sparse starts), queries = every palette colour, +-1 near misses, channel swaps, alpha in {0,1,254}, random; allowed-answer sets exactly as the statement gives them; to_indexed_image dims and row-major order; distinct = case index (every case draws fresh random content)".into(),
            coverage_extra: json!({}),
            assumptions: vec!["opaque colour present both below and at/above index 256: not 'all occurrences below 256', hence the statement's 'otherwise the failure index'".into()],
            exhaustive: false,
            min_evaluations: 1000,
        },
    )
}
