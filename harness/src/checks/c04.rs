//! C04 — loading is total.  C05 — a sprite that loads is fully usable.
//! C12 — load-time memory is bounded by the bytes supplied.
//! All three run hostile inputs in isolated worker processes (2 MiB case
//! thread, address-space limit) supervised over a line protocol.

use crate::common::*;
use crate::isolate::*;
use serde_json::json;

fn bin(var: &str, fallback: &str) -> String {
    std::env::var(var).unwrap_or_else(|_| fallback.to_string())
}

fn per_operator_json(r: &SupResult) -> serde_json::Value {
    let mut m = serde_json::Map::new();
    for (k, (n, acc)) in &r.per_operator {
        m.insert(k.clone(), json!({"inputs": n, "accepted": acc}));
    }
    serde_json::Value::Object(m)
}

/// Replay of an isolate-based violation: re-run exactly that (base, sub) input in a single worker.
fn replay_isolated(ctx: &Ctx) -> Option<i32> {
    let rp = ctx.replay.as_ref()?;
    let t = std::fs::read_to_string(rp).ok()?;
    let v: serde_json::Value = serde_json::from_str(&t).ok()?;
    let ex = &v["extra"];
    let (b, s) = (ex["base"].as_u64()?, ex["sub"].as_u64()?);
    let mode = ex["mode"].as_str().unwrap_or("load").to_string();
    let build = ex["build"].as_str().unwrap_or("checked");
    let binp = match build {
        "dev" => bin("ASEMON_BIN_DEV", "target/debug/asemon"),
        "release" => bin("ASEMON_BIN_RELEASE", "target/release/asemon"),
        _ => bin("ASEMON_BIN_CHECKED", "target/checked/asemon"),
    };
    let (bases, cap) = match ctx.prop.as_str() {
        "C12" => (ctx.tier.pick(64u64, 1000u64), ctx.tier.pick(256 * 1024usize, 2 * 1024 * 1024usize)),
        _ => (ctx.tier.pick(96u64, 1600u64), ctx.tier.pick(256 * 1024usize, 2 * 1024 * 1024usize)),
    };
    let gen_bases = bases;
    let out = std::process::Command::new(&binp)
        .arg("worker").arg("--mode").arg(&mode).arg("--seed").arg(ctx.seed.to_string()).arg("--tier").arg(ctx.tier.name())
        .arg("--generated-bases").arg(gen_bases.to_string()).arg("--corpus").arg("1").arg("--size-cap").arg(cap.to_string())
        .arg("--single").arg(format!("{}:{}", b, s)).arg("--as-limit-gib").arg(if mode == "mem" { "24" } else { "12" })
        .output().ok()?;
    let text = String::from_utf8_lossy(&out.stdout).to_string();
    println!("[{}] replay of base {} sub {} in the {} build ({} mode):", ctx.prop, b, s, build, mode);
    for l in text.lines() {
        println!("  worker: {}", &l[..l.len().min(300)]);
    }
    let died = !out.status.success();
    let viol = text.lines().any(|l| l.starts_with("V ")) || died;
    if died {
        println!("  worker died: {:?}; stderr tail: {}", out.status, String::from_utf8_lossy(&out.stderr).lines().rev().take(3).collect::<Vec<_>>().join(" | "));
    }
    if viol {
        println!("VIOLATION property={} replay={}", ctx.prop, rp.display());
        Some(1)
    } else {
        println!("[{}] replayed input no longer violates the property", ctx.prop);
        Some(0)
    }
}

pub fn run_c04(ctx: &Ctx) -> i32 {
    if ctx.replay.is_some() {
        return replay_isolated(ctx).unwrap_or(2);
    }
    let bases = ctx.tier.pick(96u64, 1600u64);
    let cap = ctx.tier.pick(256 * 1024usize, 2 * 1024 * 1024usize);
    let mut total = Summary::default();
    let mut extra = serde_json::Map::new();
    // optimised (checked) and unoptimised (dev) builds, both with overflow checks and debug assertions
    for (build, var, fallback, share) in [("checked", "ASEMON_BIN_CHECKED", "target/checked/asemon", 1u64), ("dev", "ASEMON_BIN_DEV", "target/debug/asemon", 4u64)] {
        let plan = Plan { mode: Mode::Load, seed: ctx.seed, tier: ctx.tier, generated_bases: bases, corpus: true, size_cap: cap };
        // the unoptimised build is ~10x slower: it sees every base but only every `share`-th derived input
        let extra_env = if share > 1 { vec![("ASEMON_SUB_SAMPLE".to_string(), share.to_string())] } else { vec![] };
        let cfg = SupervisorCfg { bin: bin(var, fallback), build: build.to_string(), plan, workers: ctx.threads as u64, as_limit_gib: 12, extra_env, stall_secs: 60 };
        if !std::path::Path::new(&cfg.bin).exists() {
            println!("INCONCLUSIVE property={} reason=worker binary {} missing", ctx.prop, cfg.bin);
            return 2;
        }
        let r = supervise(ctx, &cfg);
        extra.insert(format!("{}_build", build), json!({"worker_deaths": r.deaths, "per_operator": per_operator_json(&r), "bases": cfg.plan.generated_bases}));
        total.merge(r.summary);
    }
    fuzz_stage(ctx, Mode::Load, &mut total, &mut extra);
    miri_stage(ctx, &mut total, &mut extra);
    miri32_stage(ctx, &mut total, &mut extra);
    total.samples.push(json!({"example_input": "generated base gen0, field f0.c3:cel.layer (index) 0 -> 65535", "isolation": "worker process, 2 MiB case thread, RLIMIT_AS 12 GiB, catch_unwind + panic hook, death attributed to last B line"}));
    finish(
        &Ctx { level: "fault_enumeration", ..ctx.clone() },
        total,
        Finish {
            rule: "hostile inputs derived from generated well-formed files and the corpus: every structural field (magic/len/count/index/offset/size/enum/flag) set to each boundary value of its width one at a time; random pairs/triples of fields; 46 model-level inconsistency operators (consistent framing); unstructured bit flips / inserts / deletes / truncations / splices; each input loaded on a 2 MiB thread in an isolated worker, in an optimised and an unoptimised build with overflow checks and debug assertions; acceptable outcomes: Ok or Err; distinct = distinct (build, base, sub-input)".into(),
            coverage_extra: serde_json::Value::Object(extra),
            assumptions: vec![format!("exploration size cap {} bytes per input (deep group nests up to 2 MiB)", cap), "'fails to return' is decided on CPU time of an isolated re-run (10x budget of 10 s + 50 us/byte), never on wall time".into()],
            exhaustive: false,
            min_evaluations: 1000,
        },
    )
}

pub fn run_c05(ctx: &Ctx) -> i32 {
    if ctx.replay.is_some() {
        return replay_isolated(ctx).unwrap_or(2);
    }
    let bases = ctx.tier.pick(96u64, 1600u64);
    let cap = ctx.tier.pick(256 * 1024usize, 2 * 1024 * 1024usize);
    let mut total = Summary::default();
    let mut extra = serde_json::Map::new();
    // the optimised build walks everything; the unoptimised build (bigger stack frames) a quarter
    for (build, var, fallback, share) in [("checked", "ASEMON_BIN_CHECKED", "target/checked/asemon", 1u64), ("dev", "ASEMON_BIN_DEV", "target/debug/asemon", 4u64)] {
        let plan = Plan { mode: Mode::Walk, seed: ctx.seed, tier: ctx.tier, generated_bases: bases, corpus: true, size_cap: cap };
        // the unoptimised build is ~10x slower: it sees every base but only every `share`-th derived input
        let extra_env = if share > 1 { vec![("ASEMON_SUB_SAMPLE".to_string(), share.to_string())] } else { vec![] };
        let cfg = SupervisorCfg { bin: bin(var, fallback), build: build.to_string(), plan, workers: ctx.threads as u64, as_limit_gib: 12, extra_env, stall_secs: 120 };
        if !std::path::Path::new(&cfg.bin).exists() {
            println!("INCONCLUSIVE property={} reason=worker binary {} missing", ctx.prop, cfg.bin);
            return 2;
        }
        let r = supervise(ctx, &cfg);
        extra.insert(format!("{}_build", build), json!({"worker_deaths": r.deaths, "per_operator": per_operator_json(&r), "bases": cfg.plan.generated_bases}));
        total.merge(r.summary);
    }
    fuzz_stage(ctx, Mode::Walk, &mut total, &mut extra);
    let wf: u64 = total.outcomes.iter().filter(|(k, _)| k.ends_with("walk-ok-wellformed")).map(|(_, v)| *v).sum();
    let hostile_ok: u64 = total.outcomes.iter().filter(|(k, _)| k.ends_with("walk-ok-hostile-but-accepted")).map(|(_, v)| *v).sum();
    total.samples.push(json!({"walk": "every pub fn of AsepriteFile/Frame/Layer/Cel/Tilemap/Tileset/TilesetsById/ColorPalette/Tag/Slice/ExternalFilesById + Debug, in-range arguments only, PRNG-shuffled order, documented image dimensions checked; the three cel routes compared on small sprites", "wellformed_loaded": wf, "hostile_but_accepted": hostile_ok}));
    extra.insert("wellformed_inputs_walked".into(), json!(wf));
    extra.insert("hostile_but_accepted_inputs_walked".into(), json!(hostile_ok));
    extra.insert("size_cap".into(), json!(cap));
    finish(
        &Ctx { level: "fault_enumeration", ..ctx.clone() },
        total,
        Finish {
            rule: "the C04 hostile corpus (field-directed, model-level inconsistencies aimed at every 'should have been caught by validate' site, nests of 3k-65k groups, unstructured); every input that loads Ok is walked: all documented accessors with in-range arguments in shuffled order on a 2 MiB thread in an isolated worker (optimised build: all bases; unoptimised build: a quarter); acceptable: normal return with documented dimensions; distinct = distinct (build, base, sub-input)".into(),
            coverage_extra: serde_json::Value::Object(extra),
            assumptions: vec!["rendering is skipped (and counted) when the canvas or a tileset exceeds 4 Mpx so that the harness itself cannot exhaust memory (except Tileset::image of a tileset whose stacked height exceeds u32::MAX, which must not exist in a loaded sprite); Debug output is cut off after 32 MB".into()],
            exhaustive: false,
            min_evaluations: 1000,
        },
    )
}

pub fn run_c12(ctx: &Ctx) -> i32 {
    if ctx.replay.is_some() {
        return replay_isolated(ctx).unwrap_or(2);
    }
    let bases = ctx.tier.pick(64u64, 1000u64);
    let cap = ctx.tier.pick(256 * 1024usize, 2 * 1024 * 1024usize);
    let mut total = Summary::default();
    let mut extra = serde_json::Map::new();
    for (build, var, fallback) in [("release", "ASEMON_BIN_RELEASE", "target/release/asemon"), ("checked", "ASEMON_BIN_CHECKED", "target/checked/asemon")] {
        let plan = Plan { mode: Mode::Mem, seed: ctx.seed, tier: ctx.tier, generated_bases: bases, corpus: true, size_cap: cap };
        let cfg = SupervisorCfg { bin: bin(var, fallback), build: build.to_string(), plan, workers: ctx.threads as u64, as_limit_gib: 24, extra_env: vec![], stall_secs: 120 };
        if !std::path::Path::new(&cfg.bin).exists() {
            println!("INCONCLUSIVE property={} reason=worker binary {} missing", ctx.prop, cfg.bin);
            return 2;
        }
        let r = supervise(ctx, &cfg);
        extra.insert(format!("{}_build", build), json!({"worker_deaths": r.deaths, "max_peak_or_request_over_bound": r.max_mem_ratio_milli as f64 / 1000.0, "max_case": r.max_mem_case, "per_operator": per_operator_json(&r)}));
        total.merge(r.summary);
    }
    // ---- both dimensions of the frame x layer table at the format maximum (65535 x 65536, a 4.2 MB well-formed file).
    // The bound for this input is 34.4 GB, so the verdict needs an address-space limit above it: the probe runs alone,
    // after the parallel stage, and only when the machine has the memory free (otherwise it is skipped and says so).
    {
        let avail_kib: u64 = std::fs::read_to_string("/proc/meminfo").ok().and_then(|t| t.lines().find(|l| l.starts_with("MemAvailable:")).and_then(|l| l.split_whitespace().nth(1).and_then(|x| x.parse().ok()))).unwrap_or(0);
        let mut cr = CaseResult::default();
        cr.nontrivial = true;
        cr.feature = 0x7ab1e_u64;
        if avail_kib >= 48 * 1024 * 1024 {
            let out = std::process::Command::new(bin("ASEMON_BIN_RELEASE", "target/release/asemon")).arg("memprobe-max").arg("44").output();
            match out {
                Ok(o) => {
                    let text = String::from_utf8_lossy(&o.stdout).to_string();
                    let end = text.lines().find(|l| l.starts_with("MEMPROBE-END"));
                    let field = |l: &str, k: &str| -> u64 { l.split_whitespace().find_map(|w| w.strip_prefix(k).and_then(|v| v.parse().ok())).unwrap_or(0) };
                    cr.leaves = 1;
                    match end {
                        Some(l) => {
                            let (peak, bound, largest) = (field(l, "peak="), field(l, "bound="), field(l, "largest="));
                            cr.outcomes.push("extreme-table:measured".into());
                            cr.count("extreme_table_peak_bytes", peak);
                            cr.count("extreme_table_bound_bytes", bound);
                            if !l.contains("result=Ok") {
                                cr.violations.push(Violation::new("load-failed|model:sparse_cel_table_max", format!("the well-formed 65535-frame x 65536-layer sprite failed to load: {}", l)));
                            } else if peak > bound || largest > bound {
                                cr.violations.push(Violation::new("memory-bound|peak-live|model:sparse_cel_table_max", format!("well-formed sprite of 65536 layers x 65535 frames (one linked cel per frame on the top layer): peak live heap {} bytes, largest request {}, bound {} ({})", peak, largest, bound, l)).with_extra(json!({"mode": "mem", "build": "release", "operator": "model:sparse_cel_table_max"})));
                            }
                        }
                        None => {
                            use std::os::unix::process::ExitStatusExt;
                            if o.status.signal() == Some(libc::SIGKILL) {
                                // the probe runs under an address-space limit (its own excess ends in an abort); SIGKILL
                                // is the kernel's out-of-memory killer reacting to what ELSE runs on the machine: no verdict
                                cr.nontrivial = false;
                                cr.leaves = 0;
                                cr.outcomes.push("extreme-table:skipped-killed-from-outside".into());
                            } else {
                            cr.outcomes.push("extreme-table:died".into());
                            cr.violations.push(Violation::new("process-death|allocation-failure|load|model:sparse_cel_table_max", format!("loading the well-formed 65535-frame x 65536-layer sprite (4.2 MB, bound 34.4 GB) under a 44 GiB address-space limit ended the process: status {:?} signal {:?}; stderr: {}", o.status.code(), o.status.signal(), String::from_utf8_lossy(&o.stderr).lines().last().unwrap_or(""))).with_extra(json!({"mode": "mem", "build": "release", "operator": "model:sparse_cel_table_max"})));
                        }
                        }
                    }
                }
                Err(e) => cr.inconclusive = Some(format!("could not start the extreme-table probe: {}", e)),
            }
        } else {
            cr.nontrivial = false;
            cr.outcomes.push("extreme-table:skipped-less-than-48GiB-available".into());
        }
        let mut s = Summary::default();
        s.absorb(0, cr);
        total.merge(s);
    }
    total.samples.push(json!({"monitor": "counting #[global_allocator]: live bytes / peak since arming / largest single request, armed around AsepriteFile::read on the 2 MiB case thread of an isolated worker; oversized requests announced by raw write(2) before being passed on", "bound": "64 MiB + 8192 bytes per input byte"}));
    finish(
        &Ctx { level: "fault_enumeration", ..ctx.clone() },
        total,
        Finish {
            rule: "for every generated base and corpus file: every len/count/size/index field inflated one at a time to each larger boundary value up to its type maximum; model-level inflations (declared w x h vs tiny payload for raw/zlib/tilemap/tileset, entry counts, 4 GiB chunk in 4 GiB frame, layer index 65535 across 200 frames, deflate bombs at ~1000:1 which must pass), pairs of neighbouring declared sizes inflated together, a tall stack under an inflated frame count; release and checked builds; plus one probe that runs alone under a 44 GiB limit: the well-formed 65535-frame x 65536-layer sprite (bound 34.4 GB); oracle: peak live heap and largest single request while loading <= 64 MiB + 8192*len; distinct = distinct (build, base, sub-input)".into(),
            coverage_extra: serde_json::Value::Object(extra),
            assumptions: vec!["'live heap of the library' = all heap requests made between entering and leaving AsepriteFile::read on the measuring thread (the harness allocates nothing there)".into(), format!("exploration size cap {} bytes per input", cap)],
            exhaustive: false,
            min_evaluations: 1000,
        },
    )
}

pub fn worker(ctx: &Ctx, args: &[String]) -> i32 {
    let get = |k: &str| -> Option<String> { args.iter().position(|a| a == k).and_then(|p| args.get(p + 1)).cloned() };
    let single = get("--single").and_then(|s| {
        let mut it = s.split(':');
        Some((it.next()?.parse().ok()?, it.next()?.parse().ok()?))
    });
    let a = WorkerArgs {
        mode: Mode::parse(&get("--mode").unwrap_or_default()),
        seed: ctx.seed,
        tier: ctx.tier,
        generated_bases: get("--generated-bases").and_then(|x| x.parse().ok()).unwrap_or(8),
        corpus: get("--corpus").map(|x| x == "1").unwrap_or(false),
        size_cap: get("--size-cap").and_then(|x| x.parse().ok()).unwrap_or(256 * 1024),
        first: get("--first").and_then(|x| x.parse().ok()).unwrap_or(0),
        stride: get("--stride").and_then(|x| x.parse().ok()).unwrap_or(1),
        resume_sub: get("--resume-sub").and_then(|x| x.parse().ok()).unwrap_or(0),
        single,
        file: get("--file").map(std::path::PathBuf::from),
        as_limit_gib: get("--as-limit-gib").and_then(|x| x.parse().ok()).unwrap_or(0),
        cpu_limit: get("--cpu-limit").and_then(|x| x.parse().ok()).unwrap_or(0),
    };
    worker_main(ctx, a)
}

/// C16 (e): per-input outcome digests must be identical in the checked (dev-like:
/// overflow checks + debug assertions) and the stock release build.
/// Writes a JSON document for asemon_c16 --extra.
pub fn c16_cross(ctx: &Ctx, args: &[String]) -> i32 {
    let out = args.iter().position(|a| a == "--out").and_then(|p| args.get(p + 1)).cloned().unwrap_or_else(|| "/dev/stdout".into());
    let bases = ctx.tier.pick(32u64, 400u64);
    let plan = Plan { mode: Mode::Digest, seed: ctx.seed, tier: ctx.tier, generated_bases: bases, corpus: true, size_cap: 256 * 1024 };
    let mut results = Vec::new();
    for (build, var, fallback) in [("checked", "ASEMON_BIN_CHECKED", "target/checked/asemon"), ("release", "ASEMON_BIN_RELEASE", "target/release/asemon"), ("dev", "ASEMON_BIN_DEV", "target/debug/asemon")] {
        let mut p = plan.clone();
        if build == "dev" {
            // the unoptimised build is an order of magnitude slower: a small share
            p.generated_bases = ctx.tier.pick(16, 192);
            p.corpus = false;
        }
        let extra_env = if build == "dev" { vec![("ASEMON_SUB_SAMPLE".to_string(), "8".to_string())] } else { vec![] };
        let cfg = SupervisorCfg { bin: bin(var, fallback), build: build.to_string(), plan: p, workers: ctx.threads as u64, as_limit_gib: 12, extra_env, stall_secs: 120 };
        results.push((build, supervise(ctx, &cfg)));
    }
    let corpus = crate::corpus::list(ctx);
    let mut violations = Vec::new();
    let mut inconclusive: Vec<String> = Vec::new();
    let mut compared = 0u64;
    let mut by_kind: std::collections::BTreeMap<String, u64> = Default::default();
    let reference = &results[1].1; // release
    for (build, r) in [&results[0], &results[2]] {
        for ((b, s), code) in &r.codes {
            if let Some(rc) = reference.codes.get(&(*b, *s)) {
                compared += 1;
                *by_kind.entry(code.split(':').next().unwrap_or("?").to_string()).or_insert(0) += 1;
                if rc != code && violations.len() < 20 {
                    let mut p2 = plan.clone();
                    if *build == "dev" {
                        p2.generated_bases = ctx.tier.pick(16, 192);
                        p2.corpus = false;
                    }
                    let inputs = inputs_of_base(&p2, *b, &corpus);
                    let input = inputs.get(*s as usize);
                    let op = input.map(|i| i.operator.clone()).unwrap_or_default();
                    let kind = |c: &str| c.split(':').next().unwrap_or("?").to_string();
                    violations.push(json!({
                        "sig": format!("profile-dependent-result|{}-vs-release|{}->{}|{}", build, kind(code), kind(rc), op.split(':').take(2).collect::<Vec<_>>().join(":")),
                        "detail": format!("input gives {} in the {} build but {} in the release build: {}", code, build, rc, input.map(|i| i.label.clone()).unwrap_or_default()),
                        "input_hex": input.filter(|i| i.bytes.len() <= 65536).map(|i| crate::val::hex(&i.bytes)),
                        "base": b, "sub": s, "operator": op,
                    }));
                }
            }
        }
        for (_, v) in &r.summary.violations {
            // deaths in digest mode are not judged here (C04/C05 do); but they make the comparison incomplete
            inconclusive.push(format!("{} build: {}", build, v.sig));
        }
    }
    inconclusive.truncate(3);
    if compared < 1000 {
        inconclusive.push(format!("only {} inputs compared across profiles", compared));
    }
    let doc = json!({
        "violations": violations,
        "inconclusive": inconclusive,
        "counters": {"cross_profile_inputs_compared": compared},
        "coverage": {"cross_profile": {"inputs_compared": compared, "outcome_kinds": by_kind, "builds": ["checked (opt-level 3 + overflow checks + debug assertions)", "dev (opt-level 0 + checks)", "release (stock)"]}},
    });
    let _ = std::fs::write(&out, serde_json::to_string_pretty(&doc).unwrap());
    0
}

/// Thorough tier: the driver runs cargo-fuzz (libFuzzer + ASan, -fork=16) and points us at the artifacts.
fn fuzz_stage(ctx: &Ctx, mode: Mode, total: &mut Summary, extra: &mut serde_json::Map<String, serde_json::Value>) {
    let dir = match std::env::var("ASEMON_FUZZ_DIR") {
        Ok(d) => std::path::PathBuf::from(d),
        Err(_) => return,
    };
    let log = std::env::var("ASEMON_FUZZ_LOG").ok().and_then(|p| std::fs::read_to_string(p).ok()).unwrap_or_default();
    // libFuzzer prints "#<n> ..." progress lines and "Done N runs" / "stat::number_of_executed_units: N"
    let mut execs: u64 = 0;
    for l in log.lines() {
        if let Some(rest) = l.split("stat::number_of_executed_units:").nth(1) {
            execs += rest.trim().parse::<u64>().unwrap_or(0);
        }
    }
    if execs == 0 {
        // fork mode prints "#<total execs>: cov: N ft: N corp: N exec/s: N oom/timeout/crash: a/b/c ..."
        execs = log.lines().filter_map(|l| l.trim().strip_prefix('#')).filter_map(|r| r.split_whitespace().next()).filter_map(|n| n.trim_end_matches(':').parse::<u64>().ok()).max().unwrap_or(0);
    }
    let cov = log.lines().filter_map(|l| l.split("cov: ").nth(1)).filter_map(|r| r.split_whitespace().next()).filter_map(|n| n.parse::<u64>().ok()).max().unwrap_or(0);
    let t = triage_files(ctx, &bin("ASEMON_BIN_CHECKED", "target/checked/asemon"), mode, &dir);
    let artifacts = t.evaluations;
    extra.insert("libfuzzer_asan".into(), json!({"executions": execs, "max_edge_coverage": cov, "artifacts_triaged": artifacts, "target": if mode == Mode::Load { "load" } else { "load_walk" }}));
    total.counters.insert("libfuzzer_executions".into(), execs);
    if execs == 0 {
        total.inconclusive.push("libFuzzer stage produced no executions (see fuzz log)".into());
    }
    total.merge(t);
}

/// Thorough tier: the driver runs `c04_miri` shards over a sample of hostile inputs and points us at the logs.
/// The 32-bit pass (driver: `harness32` under Miri with --target i686): every input's outcome is a line of the log.
fn miri32_stage(_ctx: &Ctx, total: &mut Summary, extra: &mut serde_json::Map<String, serde_json::Value>) {
    let path = match std::env::var("ASEMON_MIRI32_LOG") {
        Ok(p) => p,
        Err(_) => return,
    };
    let text = std::fs::read_to_string(&path).unwrap_or_default();
    let done = text.lines().find(|l| l.starts_with("asemon32 done"));
    let field = |l: &str, k: &str| -> u64 { l.split_whitespace().find_map(|w| w.strip_prefix(k).and_then(|v| v.parse().ok())).unwrap_or(0) };
    let mut k = 0u64;
    for l in text.lines().filter(|l| l.starts_with("asemon32 PANIC ")) {
        // "asemon32 PANIC <file> : <message> at <location>"
        let rest = &l["asemon32 PANIC ".len()..];
        let (file, msg) = rest.split_once(" : ").unwrap_or((rest, ""));
        let loc = msg.rsplit_once(" at ").map(|x| x.1).unwrap_or("");
        let repo_file = loc.rsplit_once("/src/").map(|x| format!("src/{}", x.1.split(':').next().unwrap_or(""))).unwrap_or_default();
        let what = msg.rsplit_once(" at ").map(|x| x.0).unwrap_or(msg);
        let mut cr = CaseResult::default();
        cr.nontrivial = true;
        cr.feature = crate::rng::hash_str(file) | 1;
        cr.violations.push(Violation::new(format!("load-panic-32bit|{}|{}", repo_file, normalise_digits(what)), format!("on a 32-bit target (i686, Miri) AsepriteFile::read panicked: {} - input {}", msg, file)).with_extra(json!({"target": "i686-unknown-linux-gnu", "input": file})));
        total.absorb(5_000_000 + k, cr);
        k += 1;
    }
    if text.contains("Undefined Behavior") {
        let first = text.lines().find(|l| l.contains("Undefined Behavior")).unwrap_or("").trim().to_string();
        let mut cr = CaseResult::default();
        cr.violations.push(Violation::new(format!("miri32|undefined-behaviour|{}", normalise_digits(&first)), format!("Miri (i686) reported while loading: {}", first)));
        total.absorb(5_100_000, cr);
    } else if done.is_none() {
        total.inconclusive.push(format!("the 32-bit Miri pass did not complete: {}", text.lines().rev().find(|l| !l.trim().is_empty()).unwrap_or("(no output)")));
    }
    if let Some(d) = done {
        let (inputs, loaded, rejected) = (field(d, "inputs="), field(d, "loaded="), field(d, "rejected="));
        extra.insert("miri_32bit_pass".into(), json!({"target": "i686-unknown-linux-gnu", "pointer_width": field(d, "pointer_width="), "inputs": inputs, "loaded": loaded, "rejected": rejected, "panics": field(d, "panics=")}));
        total.counters.insert("miri32_inputs".into(), inputs);
        total.counters.insert("miri32_loaded".into(), loaded);
        total.counters.insert("miri32_rejected".into(), rejected);
        total.evaluations += inputs.saturating_sub(k);
        total.leaves += inputs;
    }
}

fn miri_stage(_ctx: &Ctx, total: &mut Summary, extra: &mut serde_json::Map<String, serde_json::Value>) {
    let dir = match std::env::var("ASEMON_MIRI_LOGS") {
        Ok(d) => std::path::PathBuf::from(d),
        Err(_) => return,
    };
    let mut inputs = 0u64;
    let mut shards = 0u64;
    let mut bad: Vec<String> = Vec::new();
    if let Ok(rd) = std::fs::read_dir(&dir) {
        for e in rd.filter_map(|e| e.ok()) {
            let text = std::fs::read_to_string(e.path()).unwrap_or_default();
            shards += 1;
            let done = text.lines().find_map(|l| l.strip_prefix("c04_miri ok inputs=")).and_then(|r| r.split_whitespace().next()).and_then(|n| n.parse::<u64>().ok());
            if let Some(n) = done {
                inputs += n;
            }
            if text.contains("Undefined Behavior") || text.contains("panicked at") {
                let first = text.lines().find(|l| l.contains("Undefined Behavior") || l.contains("panicked at")).unwrap_or("").trim().to_string();
                bad.push(first);
            } else if done.is_none() {
                total.inconclusive.push(format!("Miri shard {} did not complete: {}", e.path().display(), text.lines().rev().find(|l| !l.trim().is_empty()).unwrap_or("")));
            }
        }
    }
    extra.insert("miri_hostile_pass".into(), json!({"shards": shards, "inputs_loaded_under_miri": inputs, "reports": bad.len()}));
    total.counters.insert("miri_hostile_inputs".into(), inputs);
    for (k, b) in bad.iter().enumerate() {
        let mut cr = CaseResult::default();
        let kind = if b.contains("Undefined Behavior") { "undefined-behaviour" } else { "panic" };
        cr.violations.push(Violation::new(format!("miri|{}|{}", kind, normalise_digits(b)), format!("Miri reported while loading / walking hostile inputs: {}", b)));
        total.absorb(4_000_000 + k as u64, cr);
        total.evaluations -= 1;
    }
}

/// Writes a sample of hostile inputs (every `stride`-th derived input of `bases` bases, <= 8 KiB) for the Miri pass.
pub fn gen_hostile_sample(ctx: &Ctx, args: &[String]) -> i32 {
    let dir = std::path::PathBuf::from(args.first().cloned().unwrap_or_else(|| "hostile-sample".into()));
    let bases: u64 = args.get(1).and_then(|x| x.parse().ok()).unwrap_or(4);
    let stride: usize = args.get(2).and_then(|x| x.parse().ok()).unwrap_or(97);
    let _ = std::fs::create_dir_all(&dir);
    let plan = Plan { mode: Mode::Load, seed: ctx.seed, tier: Tier::Quick, generated_bases: bases, corpus: false, size_cap: 8 * 1024 };
    let mut n = 0;
    for b in 0..bases {
        for (k, input) in inputs_of_base(&plan, b, &[]).iter().enumerate() {
            if k % stride != (b as usize * 13) % stride || input.bytes.len() > 8 * 1024 {
                continue;
            }
            let _ = std::fs::write(dir.join(format!("b{:03}-s{:05}.ase", b, k)), &input.bytes);
            n += 1;
        }
    }
    println!("wrote {} hostile inputs to {}", n, dir.display());
    0
}

/// Inputs for the 32-bit pass (`harness32`, Miri on i686): small sprites whose cels / tilemaps / tilesets DECLARE
/// sizes whose byte or pixel products reach or exceed 2^32 (and 2^31), with tiny payloads, in all pixel formats and
/// storages - plus a few generated well-formed files so that the pass also sees accepted input.
pub fn gen_decl32_sample(ctx: &Ctx, args: &[String]) -> i32 {
    use crate::model::*;
    let dir = std::path::PathBuf::from(args.first().cloned().unwrap_or_else(|| "decl32-sample".into()));
    let _ = std::fs::create_dir_all(&dir);
    let mut rng = crate::rng::Rng::derive(ctx.seed, "decl32", 0);
    let mut n = 0;
    // quick: three shapes per (format, kind) - Miri needs ~0.6 s per load; thorough: seven
    let all: [(u16, u16); 7] = [(32_768, 32_768), (65_535, 65_535), (46_341, 46_341), (16_384, 65_535), (65_535, 32_769), (23_171, 23_171), (1, 65_535)];
    let dims = &all[..if ctx.tier == Tier::Thorough { 7 } else { 3 }];
    for fmt in [Fmt::Rgba, Fmt::Gray, Fmt::Indexed] {
        for (k, (w, h)) in dims.iter().enumerate() {
            for kind in 0..4 {
                let mut sp = Sprite::blank(2, 2, fmt, 1);
                if fmt == Fmt::Indexed {
                    let mut pal = std::collections::BTreeMap::new();
                    pal.insert(0u32, PalEntryM { rgba: [0, 0, 0, 0], name: None });
                    pal.insert(1u32, PalEntryM { rgba: [9, 9, 9, 255], name: None });
                    sp.palette = Some(pal);
                }
                sp.tilesets.push(TilesetM { id: 0, flags: TS_EMBED | TS_ZERO_EMPTY, count: 2, tw: 1, th: 1, base_index: 1, name: "t".into(), ext: None, pixels: vec![0; 2 * fmt.bpp()] });
                sp.layers.push(LayerM::image("img"));
                let mut tl = LayerM::image("tm");
                tl.kind = LayerKind::Tilemap(0);
                sp.layers.push(tl);
                sp.cels.insert((0, 0), CelM { x: 0, y: 0, opacity: 255, content: CelContentM::Image { w: 1, h: 1, pixels: vec![0; fmt.bpp()] }, ud: None });
                sp.cels.insert((0, 1), CelM { x: 0, y: 0, opacity: 255, content: CelContentM::Tilemap { w: 1, h: 1, tiles: vec![1], masks: [0x1fff_ffff, 0x2000_0000, 0x4000_0000, 0x8000_0000] }, ud: None });
                let mut v = crate::program::Variation::none();
                v.default_storage = if kind == 0 { Storage::Raw } else { Storage::Zlib(6) };
                let (mut bytes, map) = crate::encode::encode(&crate::program::compile(&sp, &mut rng, &v));
                // patch the declared dimensions (the payload stays one pixel / one tile)
                let target = match kind {
                    0 | 1 => ("c", ":cel.w", ":cel.h", 0usize), // first cel chunk = image cel
                    2 => ("c", ":cel.w", ":cel.h", 1),           // second cel chunk = tilemap cel
                    _ => ("t", ":tileset.tw", ":tileset.th", 0),
                };
                let ws: Vec<_> = map.fields.iter().filter(|f| f.name.ends_with(target.1)).collect();
                let hs: Vec<_> = map.fields.iter().filter(|f| f.name.ends_with(target.2)).collect();
                if let (Some(fw), Some(fh)) = (ws.get(target.3), hs.get(target.3)) {
                    bytes[fw.off..fw.off + 2].copy_from_slice(&w.to_le_bytes());
                    bytes[fh.off..fh.off + 2].copy_from_slice(&h.to_le_bytes());
                    if kind == 3 {
                        // tileset: also a tile count that pushes count*w*h*bpp over 2^32
                        if let Some(fc) = map.fields.iter().find(|f| f.name.ends_with(":tileset.count")) {
                            bytes[fc.off..fc.off + 4].copy_from_slice(&[3u32, 65_537, 0x0100_0001][k % 3].to_le_bytes());
                        }
                    }
                    let _ = std::fs::write(dir.join(format!("decl-{}-{}-{}x{}.ase", fmt.name(), ["rawcel", "zlibcel", "tilemap", "tileset"][kind], w, h)), &bytes);
                    n += 1;
                }
            }
        }
    }
    // (Miri interprets: a few small accepted files are enough to see that the pass does load)
    let mut wf = 0;
    for b in 0..40u64 {
        let base = crate::hostile::generated_base(ctx.seed, b);
        if base.bytes.len() <= 1000 && wf < 2 {
            let _ = std::fs::write(dir.join(format!("wellformed-gen{}.ase", b)), &base.bytes);
            n += 1;
            wf += 1;
        }
    }
    println!("wrote {} inputs for the 32-bit pass to {}", n, dir.display());
    0
}

/// Writes `n` generated well-formed files (+ the small corpus files) as a libFuzzer seed corpus.
pub fn gen_corpus(ctx: &Ctx, args: &[String]) -> i32 {
    let dir = std::path::PathBuf::from(args.first().cloned().unwrap_or_else(|| "fuzz-corpus".into()));
    let n: u64 = args.get(1).and_then(|x| x.parse().ok()).unwrap_or(200);
    let _ = std::fs::create_dir_all(&dir);
    for b in 0..n {
        let base = crate::hostile::generated_base(ctx.seed, b);
        let _ = std::fs::write(dir.join(format!("gen{}.ase", b)), &base.bytes);
    }
    for (name, bytes) in crate::corpus::list(ctx) {
        if bytes.len() <= 16 * 1024 {
            let _ = std::fs::write(dir.join(format!("corpus-{}.ase", name)), &bytes);
        }
    }
    println!("wrote seed corpus to {}", dir.display());
    0
}

/// Diagnostic: well-formed sprite of n layers x n frames with one 1x1 cel per frame on the last layer;
/// prints peak heap vs the C12 bound (run in a fresh process).
/// `asemon memprobe-max <as-limit-gib>`: load the 65535-frame x 65536-layer sprite under an address-space limit
/// and print what the allocation monitor saw. Run as a child process by C12 (an allocation failure aborts).
pub fn memprobe_max(_ctx: &Ctx, args: &[String]) -> i32 {
    let gib: u64 = args.first().and_then(|x| x.parse().ok()).unwrap_or(44);
    let bytes = crate::hostile::sparse_table_max_bytes();
    unsafe {
        let lim = libc::rlimit { rlim_cur: gib << 30, rlim_max: gib << 30 };
        libc::setrlimit(libc::RLIMIT_AS, &lim);
        let nocore = libc::rlimit { rlim_cur: 0, rlim_max: 0 };
        libc::setrlimit(libc::RLIMIT_CORE, &nocore);
    }
    let bound = mem_bound(bytes.len());
    println!("MEMPROBE-START input={} bound={}", bytes.len(), bound);
    crate::allocmon::arm(u64::MAX, -1);
    let r = crate::util::load(&bytes).map(|a| (a.num_frames(), a.num_layers()));
    let st = crate::allocmon::disarm();
    println!("MEMPROBE-END input={} peak={} largest={} bound={} result={:?}", bytes.len(), st.peak, st.largest, bound, r.map_err(|e| e.to_string()));
    0
}

pub fn memprobe(_ctx: &Ctx, args: &[String]) -> i32 {
    use crate::model::*;
    let n: usize = args.first().and_then(|x| x.parse().ok()).unwrap_or(1000);
    let mut sp = Sprite::blank(1, 1, Fmt::Rgba, n);
    for i in 0..n {
        let mut l = LayerM::image("");
        l.opacity = (i % 256) as u8;
        sp.layers.push(l);
    }
    for f in 0..n {
        sp.cels.insert((f as u16, (n - 1) as u16), CelM { x: 0, y: 0, opacity: 255, content: CelContentM::Image { w: 1, h: 1, pixels: vec![1, 2, 3, 4] }, ud: None });
    }
    let mut v = crate::program::Variation::none();
    v.default_storage = Storage::Raw;
    let mut rng = crate::rng::Rng::new(1);
    let bytes = crate::encode::encode(&crate::program::compile(&sp, &mut rng, &v)).0;
    drop(sp);
    let bound = mem_bound(bytes.len());
    crate::allocmon::arm(u64::MAX, -1);
    let r = crate::util::load(&bytes).map(|a| a.num_layers());
    let st = crate::allocmon::disarm();
    println!("n={} input={} bytes result={:?} peak={} largest={} bound={} ratio={:.3}", n, bytes.len(), r.map_err(|e| e.to_string()), st.peak, st.largest, bound, st.peak as f64 / bound as f64);
    0
}
