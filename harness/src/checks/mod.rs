pub mod c01;
pub mod c02;
pub mod c03;
pub mod c04;
pub mod c07;
pub mod c08;
pub mod c09;
pub mod c10;
pub mod c11;
pub mod c13;
pub mod c14;
pub mod c15;
pub mod c18;
pub mod c19;

use crate::common::Ctx;

pub fn run(ctx: &Ctx, args: &[String]) -> i32 {
    let _ = args;
    match ctx.prop.as_str() {
        "C01" => c01::run(ctx),
        "C02" => c02::run_c02(ctx),
        "C06" => c02::run_c06(ctx),
        "C07" => c07::run(ctx),
        "C08" => c08::run(ctx),
        "C09" => c09::run(ctx),
        "C19" => c19::run(ctx),
        "C10" => c10::run(ctx),
        "C11" => c11::run(ctx),
        "C13" => c13::run(ctx),
        "C14" => c14::run(ctx),
        "C15" => c15::run(ctx),
        "C18" => c18::run(ctx),
        "C03" => c03::run_c03(ctx),
        "C04" => c04::run_c04(ctx),
        "C05" => c04::run_c05(ctx),
        "C12" => c04::run_c12(ctx),
        "worker" => c04::worker(ctx, args),
        "c16-cross" => c04::c16_cross(ctx, args),
        "gen-corpus" => c04::gen_corpus(ctx, args),
        "memprobe" => c04::memprobe(ctx, args),
        "memprobe-max" => c04::memprobe_max(ctx, args),
        "gen-decl32-sample" => c04::gen_decl32_sample(ctx, args),
        "gen-hostile-sample" => c04::gen_hostile_sample(ctx, args),
        "C17" => c03::run_c17(ctx),
        "selfcheck" => selfcheck(ctx),
        other => {
            println!("INCONCLUSIVE property={} reason=no such check", other);
            2
        }
    }
}

/// Oracle / reference-renderer self-checks against Aseprite-rendered PNGs.
pub fn selfcheck(ctx: &Ctx) -> i32 {
    let mut bad = 0;
    match crate::blendscan::oracle_selfcheck(ctx) {
        Ok(v) => println!("oracle self-check: {}", v),
        Err(e) => {
            println!("oracle self-check FAILED: {}", e);
            bad += 1;
        }
    }
    match crate::corpus::refrender_vs_reference_pngs(ctx) {
        Ok((files, px, mm, list)) => {
            println!("reference renderer vs Aseprite PNGs: {} frame images, {} pixels, {} mismatches {:?}", files, px, mm, list);
            if mm != 0 || files < 30 {
                bad += 1;
            }
        }
        Err(e) => {
            println!("reference renderer self-check FAILED: {}", e);
            bad += 1;
        }
    }
    if bad == 0 {
        0
    } else {
        2
    }
}
