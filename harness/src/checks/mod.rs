pub mod c01;

use crate::common::Ctx;

pub fn run(ctx: &Ctx, _args: &[String]) -> i32 {
    match ctx.prop.as_str() {
        "C01" => c01::run(ctx),
        other => {
            println!("INCONCLUSIVE property={} reason=no such check", other);
            2
        }
    }
}
