//! C08 — tilemap and tileset images agree with tile lookups.
//! Oracle: the relations between the public views themselves (image vs
//! tile() vs tile_image()), plus the model for ids, sizes and offsets.

use crate::common::*;
use crate::encode::encode;
use crate::gen::{self, GenCfg};
use crate::model::*;
use crate::observe::ObsOpts;
use crate::program::{compile_with, Variation};
use crate::refrender::opacity_product;
use crate::rng::Rng;
use crate::util::*;
use serde_json::json;

/// Cross-view relations, checked on the loaded file (opacity from the model:
/// cel opacity is not exposed by the API).
fn relations(sp: &Sprite, ase: &asefile::AsepriteFile) -> Result<u64, Violation> {
    let mut checked = 0u64;
    // tileset image = tile images stacked vertically; each tile image has the tile size
    for ts in ase.tilesets().iter() {
        let (tw, th) = (ts.tile_size().width() as u32, ts.tile_size().height() as u32);
        let full = ts.image();
        if full.width() != tw || full.height() != th * ts.tile_count() {
            return Err(Violation::new("tileset-image-dim", format!("tileset {} image is {}x{}, expected {}x{}", ts.id(), full.width(), full.height(), tw, th * ts.tile_count())));
        }
        for i in crate::observe::tile_sample(ts.tile_count()) {
            let ti = ts.tile_image(i);
            if ti.width() != tw || ti.height() != th {
                return Err(Violation::new("tile-image-dim", format!("tile {} of tileset {} is {}x{}, tile size {}x{}", i, ts.id(), ti.width(), ti.height(), tw, th)));
            }
            for y in 0..th {
                for x in 0..tw {
                    if ti.get_pixel(x, y) != full.get_pixel(x, i * th + y) {
                        return Err(Violation::new("tileset-stack", format!("tileset {}: tile_image({}) pixel ({},{}) = {:?} but image() row {} has {:?}", ts.id(), i, x, y, ti.get_pixel(x, y), i * th + y, full.get_pixel(x, i * th + y))));
                    }
                    checked += 1;
                }
            }
        }
    }
    for l in 0..ase.num_layers() {
        for f in 0..ase.num_frames() {
            let tm = match ase.tilemap(l, f) {
                Some(t) => t,
                None => continue,
            };
            let cel = &sp.cels[&(f as u16, l as u16)];
            let op = opacity_product(sp.layers[l as usize].opacity, cel.opacity);
            let (tw, th) = tm.tile_size();
            let img = tm.image();
            if img.width() != ase.width() as u32 || img.height() != ase.height() as u32 {
                return Err(Violation::new("tilemap-image-dim", format!("tilemap image {}x{} for canvas {}x{}", img.width(), img.height(), ase.width(), ase.height())));
            }
            let ts = tm.tileset();
            // where tile 0 has visible pixels the relation is only demanded INSIDE the stored tile area (outside it the
            // lookup answers "empty tile 0" and nothing is drawn: the statement presupposes an empty tile 0 there)
            let (sw, sh) = match &cel.content {
                CelContentM::Tilemap { w, h, .. } => (*w as i64, *h as i64),
                _ => (0, 0),
            };
            let (ox, oy) = tm.tile_offsets();
            let tile0_blank = {
                let t0 = ts.tile_image(0);
                t0.pixels().all(|p| p.0[3] == 0)
            };
            // cache the images of the tiles that are looked up (tile_image is linear in the tileset size)
            let mut tiles: std::collections::HashMap<u32, image::RgbaImage> = std::collections::HashMap::new();
            for y in 0..img.height() {
                for x in 0..img.width() {
                    let id = tm.tile(x / tw, y / th).id();
                    let (sx, sy) = ((x / tw) as i64 - ox as i64, (y / th) as i64 - oy as i64);
                    if !tile0_blank && (sx < 0 || sy < 0 || sx >= sw || sy >= sh) {
                        continue;
                    }
                    if id >= ts.tile_count() {
                        return Err(Violation::new("tile-id-range", format!("tile({},{}) reports id {} >= tile count {}", x / tw, y / th, id, ts.tile_count())));
                    }
                    let tp = tiles.entry(id).or_insert_with(|| ts.tile_image(id)).get_pixel(x % tw, y % th).0;
                    let ea = opacity_product(tp[3], op);
                    let got = img.get_pixel(x, y).0;
                    // "the corresponding pixel of the tile ... (alpha scaled by opacity)": the colour channels count for fully
                    // transparent pixels too (sixth round) - except for the empty tile 0, which need not be drawn at all
                    let ok = if ea == 0 && id == 0 { got[3] == 0 } else { got == [tp[0], tp[1], tp[2], ea] };
                    if !ok {
                        return Err(Violation::new(
                            "tilemap-image-vs-lookup",
                            format!("layer {} frame {}: image pixel ({},{}) = {:?}, but tile({},{}) -> id {} whose pixel ({},{}) is {:?} (opacity {})", l, f, x, y, got, x / tw, y / th, id, x % tw, y % th, tp, op),
                        ));
                    }
                    checked += 1;
                }
            }
        }
    }
    Ok(checked)
}

pub fn run(ctx: &Ctx) -> i32 {
    let n = ctx.tier.pick(20_000u64, 300_000u64);
    let mut opts = ObsOpts::structure_only();
    opts.structure = false;
    opts.tilemaps = true;
    opts.cel_images = true;
    opts.tileset_images = true;
    let sum = run_cases(ctx, n, |i| {
        let mut rng = Rng::derive(ctx.seed, "C08", i);
        let mut cfg = GenCfg::small();
        cfg.attrs = false;
        cfg.extremes = false;
        cfg.groups = i % 5 == 0;
        cfg.links = false;
        cfg.big = true;
        cfg.bg_tilemap = true;
        cfg.nonblank_tile0 = i % 3 == 1;
        cfg.max_layers = 4;
        cfg.max_frames = 3;
        cfg.max_w = 40;
        cfg.max_h = 30;
        // force tilesets: regenerate until the sprite has a tilemap cel (cheap)
        let mut tries = 0;
        let (sp, palprog) = loop {
            let (sp, pp) = gen::gen_sprite(&mut rng, &cfg);
            tries += 1;
            if sp.cels.values().any(|c| matches!(c.content, CelContentM::Tilemap { .. })) || tries > 40 {
                break (sp, pp);
            }
        };
        let ntm = sp.cels.values().filter(|c| matches!(c.content, CelContentM::Tilemap { .. })).count() as u64;
        let mut res = CaseResult::ok(gen::features(&sp), 0, if ntm > 0 { "ok" } else { "no-tilemap" });
        res.nontrivial = ntm > 0;
        res.count("tilemap_cels", ntm);
        res.count("tilesets", sp.tilesets.len() as u64);
        res.count(&format!("format:{}", sp.fmt.name()), 1);
        for c in sp.cels.values() {
            if let CelContentM::Tilemap { .. } = c.content {
                if c.x < 0 || c.y < 0 {
                    res.count("maps_with_negative_offset", 1);
                }
                if c.x as i32 >= sp.width as i32 || c.y as i32 >= sp.height as i32 {
                    res.count("maps_fully_beyond_canvas", 1);
                }
            }
        }
        let mut v = Variation::none();
        v.storage = i % 2 == 0;
        let (bytes, leaves, viol) = roundtrip(&sp, &palprog, &mut rng, &v, &opts, "tilemap");
        res.leaves += leaves;
        if let Some(v) = viol {
            res.outcomes = vec!["violation".into()];
            res.violations.push(v);
        } else if let Ok(ase) = load(&bytes) {
            match relations(&sp, &ase) {
                Ok(k) => {
                    res.leaves += k;
                    res.count("relation_pixels_checked", k);
                }
                Err(v) => {
                    res.outcomes = vec!["violation".into()];
                    res.violations.push(Violation { sig: format!("relation|{}", v.sig), ..v }.with_input(&bytes).with_extra(json!({"model": sprite_summary(&sp)})));
                }
            }
        }
        // the same sprite with every tileset recoloured (same sizes, same ids), loaded and checked on the same thread
        // right after the first one was dropped: nothing may be carried over from one loaded file to the next
        if res.violations.is_empty() && ntm > 0 && i % 2 == 0 {
            let mut sp2 = sp.clone();
            for ts in sp2.tilesets.iter_mut() {
                let area = ts.tw as usize * ts.th as usize * sp2.fmt.bpp();
                match sp2.fmt {
                    Fmt::Indexed => {
                        // permute the palette indices that the tiles use (tile 0 stays as it is)
                        let mut used: Vec<u8> = ts.pixels[area..].to_vec();
                        used.sort_unstable();
                        used.dedup();
                        if used.len() > 1 {
                            let map: std::collections::HashMap<u8, u8> = used.iter().cloned().zip(used.iter().cloned().cycle().skip(1)).collect();
                            for p in ts.pixels[area..].iter_mut() {
                                *p = map[p];
                            }
                        }
                    }
                    Fmt::Gray => {
                        for p in ts.pixels[area..].chunks_mut(2) {
                            p[0] = p[0].wrapping_add(101);
                        }
                    }
                    Fmt::Rgba => {
                        for p in ts.pixels[area..].chunks_mut(4) {
                            p.swap(0, 2);
                            p[1] = p[1].wrapping_add(77);
                        }
                    }
                }
            }
            let bytes2 = encode(&compile_with(&sp2, &mut rng, &v, &palprog)).0;
            match load(&bytes2) {
                Err(e) => res.violations.push(Violation::new(format!("load-failed|recoloured|{}", err_sig(&e)), format!("recoloured sprite failed to load: {}", e)).with_input(&bytes2)),
                Ok(ase2) => match relations(&sp2, &ase2) {
                    Ok(k) => {
                        res.leaves += k;
                        res.count("relation_pixels_checked_second_load", k);
                    }
                    Err(v) => {
                        res.outcomes = vec!["violation".into()];
                        res.violations.push(Violation { sig: format!("relation-after-previous-load|{}", v.sig), ..v }.with_input(&bytes2).with_extra(json!({"model": sprite_summary(&sp2), "note": "second sprite loaded on the same thread after a sprite of identical shape"})));
                    }
                },
            }
        }
        if i == 0 {
            res.sample = Some(json!({"case": i, "model": sprite_summary(&sp)}));
        }
        res
    });
    finish(
        ctx,
        sum,
        Finish {
            rule: "PRNG-generated sprites with 1-3 tilesets (tile sizes 1x1..17x9, counts 1..300, three formats, narrower id masks with garbage outside every mask) and tilemap cels of stored size 1x1..8x8 at tile-aligned offsets from far negative to beyond the canvas; checks: tilemap observation vs model (sizes, offsets, lookups at all in-range coordinates + extremes), Tilemap::image vs tile()/tile_image() per canvas pixel, Tileset::image vs stacked tile_image(i); distinct = model feature hash, non-trivial = has a tilemap cel".into(),
            coverage_extra: json!({}),
            assumptions: vec!["cel opacity (not exposed by the API) is taken from the model for the image-vs-lookup relation".into()],
            exhaustive: false,
            min_evaluations: 100,
        },
    )
}
