//! C19 — all access paths to a cel agree; single-layer frames equal the cel
//! image; a tilemap's image equals the image of its cel.

use crate::common::*;
use crate::encode::encode;
use crate::gen::{self, GenCfg};
use crate::model::*;
use crate::observe::{cel_v, ud_v};
use crate::program::{compile_with, Variation};
use crate::rng::Rng;
use crate::util::*;
use crate::val::*;
use asefile::AsepriteFile;
use serde_json::json;

/// Route agreement on a loaded file (no model needed). Returns comparisons made.
pub fn routes_agree(ase: &AsepriteFile, images: bool) -> Result<u64, Violation> {
    let mut n = 0u64;
    let nl = ase.num_layers();
    let nf = ase.num_frames();
    for f in 0..nf {
        for l in 0..nl {
            let a = ase.cel(f, l);
            let fr = ase.frame(f);
            let ly = ase.layer(l);
            let b = fr.layer(l);
            let c = ly.frame(f);
            let va = cel_v(&a, images);
            let vb = cel_v(&b, images);
            let vc = cel_v(&c, images);
            if a.frame() != f || a.layer() != l {
                return Err(Violation::new("route-coords|direct", format!("cel({},{}) reports frame {} layer {}", f, l, a.frame(), a.layer())));
            }
            if let Some(d) = diff(&vb, &va) {
                return Err(Violation::new(format!("route-mismatch|frame-then-layer|{}", crate::common::normalise_digits(&d.path)), format!("frame({}).layer({}) vs cel({},{}): {}", f, l, f, l, d)));
            }
            if let Some(d) = diff(&vc, &va) {
                return Err(Violation::new(format!("route-mismatch|layer-then-frame|{}", crate::common::normalise_digits(&d.path)), format!("layer({}).frame({}) vs cel({},{}): {}", l, f, f, l, d)));
            }
            if a.user_data() != b.user_data() || a.user_data() != c.user_data() {
                return Err(Violation::new("route-mismatch|user-data", format!("user data differs between routes at frame {} layer {}: {:?}", f, l, ud_v(a.user_data()).short())));
            }
            n += 3;
            if images {
                if let Some(tm) = ase.tilemap(l, f) {
                    let ti = Img::from_rgba(&tm.image(), true);
                    let ci = Img::from_rgba(&a.image(), true);
                    if let Some(d) = diff(&V::Img(ti), &V::Img(ci)) {
                        return Err(Violation::new("tilemap-image-vs-cel-image", format!("tilemap({},{}).image() vs cel({},{}).image(): {}", l, f, f, l, d)));
                    }
                    n += 1;
                }
            }
        }
        if images {
            // a frame in which exactly one visible layer has a cel renders exactly that cel's image
            let with_cel: Vec<u32> = (0..nl).filter(|l| ase.layer(*l).is_visible() && !ase.cel(f, *l).is_empty()).collect();
            if with_cel.len() == 1 {
                let fi = Img::from_rgba(&ase.frame(f).image(), true);
                let ci = Img::from_rgba(&ase.cel(f, with_cel[0]).image(), true);
                if let Some(d) = diff(&V::Img(fi), &V::Img(ci)) {
                    return Err(Violation::new("single-layer-frame-vs-cel", format!("frame({}) has exactly one visible celled layer {} but frame image differs from the cel image: {}", f, with_cel[0], d)));
                }
                n += 1;
            }
        }
    }
    Ok(n)
}

pub fn run(ctx: &Ctx) -> i32 {
    let n = ctx.tier.pick(30_000u64, 300_000u64);
    let mut sum = run_cases(ctx, n, |i| {
        let mut rng = Rng::derive(ctx.seed, "C19", i);
        let mut cfg = GenCfg::small();
        cfg.max_w = 12;
        cfg.max_h = 12;
        cfg.max_cel = 8;
        cfg.big = true;
        cfg.extremes = false;
        cfg.max_layers = 6;
        cfg.max_frames = 6;
        cfg.link_junk = i % 2 == 0;
        cfg.nonblank_tile0 = i % 3 == 1;
        if i % 3 == 0 {
            // sparse stacks so that single-visible-layer frames are common
            cfg.cel_density = 2;
        }
        if i % 40 == 7 {
            // more than 256 frames (or layers): index truncation slips
            cfg.max_w = 3;
            cfg.max_h = 3;
            cfg.max_cel = 2;
            cfg.tilemaps = false;
            if i % 80 == 7 {
                cfg.max_frames = 700;
                cfg.max_layers = 2;
            } else {
                cfg.max_frames = 2;
                cfg.max_layers = 300;
                cfg.groups = false;
            }
            cfg.cel_density = 3;
        }
        let (mut sp, palprog) = gen::gen_sprite(&mut rng, &cfg);
        let mut hidden_covering = 0u64;
        if i % 80 == 7 {
            while sp.durations.len() < 300 {
                sp.durations.push(10);
            }
            // cels beyond frame 255 with distinguishable content
            let nl = sp.layers.len() as u16;
            for f in [256u16, 257, 299] {
                for l in 0..nl {
                    if sp.layers[l as usize].kind == LayerKind::Image && !sp.cels.contains_key(&(f, l)) {
                        let px = gen::gen_pixels(&mut rng, &sp, 1);
                        sp.cels.insert((f, l), CelM { x: (f % 3) as i16, y: 0, opacity: 255, content: CelContentM::Image { w: 1, h: 1, pixels: px }, ud: None });
                    }
                }
            }
        }
        // every fifth sprite gets one more frame in which exactly one visible image layer has a cel while hidden layers
        // above and below it carry opaque canvas-sized cels at the origin (Normal, full opacity): what a hidden
        // layer holds - however completely it would cover the rest - is no part of the frame
        if i % 5 == 4 && sp.durations.len() < 60_000 {
            let imgs: Vec<usize> = (0..sp.layers.len()).filter(|l| sp.layers[*l].kind == LayerKind::Image && *l <= 65_535).collect();
            let vis = sp.visible();
            let shown: Vec<usize> = imgs.iter().cloned().filter(|l| vis[*l]).collect();
            if imgs.len() >= 2 && !shown.is_empty() {
                let one = *rng.pick(&shown);
                for l in &imgs {
                    if *l != one && rng.chance(2, 3) {
                        sp.layers[*l].flags &= !1;
                    }
                }
                let vis = sp.visible();
                let f = sp.durations.len() as u16;
                sp.durations.push(33);
                let (w, h) = (sp.width, sp.height);
                let mut covering = 0;
                for l in &imgs {
                    if *l == one {
                        let (cw, ch) = (rng.range(1, w.min(8) as i64) as u16, rng.range(1, h.min(8) as i64) as u16);
                        let pixels = gen::gen_pixels(&mut rng, &sp, cw as usize * ch as usize);
                        sp.cels.insert((f, *l as u16), CelM { x: rng.range(-1, w as i64 - 1) as i16, y: rng.range(-1, h as i64 - 1) as i16, opacity: rng.opacity(), content: CelContentM::Image { w: cw, h: ch, pixels }, ud: None });
                    } else if !vis[*l] && (w as u32 * h as u32) <= 4096 {
                        let mut pixels = gen::gen_pixels(&mut rng, &sp, w as usize * h as usize);
                        match sp.fmt {
                            Fmt::Rgba => pixels.chunks_exact_mut(4).for_each(|p| p[3] = 255),
                            Fmt::Gray => pixels.chunks_exact_mut(2).for_each(|p| p[1] = 255),
                            Fmt::Indexed => {}
                        }
                        sp.layers[*l].opacity = 255;
                        sp.layers[*l].blend = 0;
                        sp.cels.insert((f, *l as u16), CelM { x: 0, y: 0, opacity: 255, content: CelContentM::Image { w, h, pixels }, ud: None });
                        covering += 1;
                    }
                }
                hidden_covering = covering;
            }
        }
        // frames x layers never square
        if sp.durations.len() == sp.layers.len() {
            sp.durations.push(77);
        }
        // unique user data on every cel so swapped coordinates are visible
        for ((f, l), c) in sp.cels.iter_mut() {
            c.ud = Some(UserDataM { text: Some(format!("cel f{} l{}", f, l)), color: None });
        }
        let mut res = CaseResult::ok(gen::features(&sp), 0, "ok");
        res.count("hidden_covering_cels_over_a_single_visible_cel", hidden_covering);
        // plain / permuted cel chunks / junk in the reserved bytes of cel chunks (where later format versions keep a z-index)
        let var = match i % 4 {
            0 | 2 => Variation::none(),
            1 => Variation::only(8),
            _ => Variation::only(3),
        };
        let spec = compile_with(&sp, &mut rng, &var, &palprog);
        let (bytes, _) = encode(&spec);
        match load(&bytes) {
            Err(e) => res.violations.push(Violation::new(format!("load-failed|routes|{}", err_sig(&e)), format!("well-formed sprite failed to load: {}", e)).with_input(&bytes)),
            Ok(ase) => {
                res.count("cel_slots", (ase.num_frames() * ase.num_layers()) as u64);
                match routes_agree(&ase, true) {
                    Ok(k) => {
                        res.leaves += k;
                        res.count("route_comparisons", k);
                    }
                    Err(v) => res.violations.push(v.with_input(&bytes).with_extra(json!({"model": sprite_summary(&sp)}))),
                }
                // the routes must also agree with the model on coordinates / user data / emptiness
                for f in 0..ase.num_frames() {
                    for l in 0..ase.num_layers() {
                        let want_empty = !sp.cels.contains_key(&(f as u16, l as u16));
                        if ase.cel(f, l).is_empty() != want_empty {
                            res.violations.push(Violation::new("route-vs-model|is-empty", format!("cel({},{}).is_empty() = {} but the file {} a cel there", f, l, !want_empty, if want_empty { "does not store" } else { "stores" })).with_input(&bytes));
                        }
                        let got = ud_v(ase.frame(f).layer(l).user_data());
                        let want = crate::expect::ud_v(sp.cels.get(&(f as u16, l as u16)).and_then(|c| c.ud.as_ref()));
                        if got != want {
                            res.violations.push(Violation::new("route-vs-model|user-data", format!("frame({}).layer({}) user data {} expected {}", f, l, got.short(), want.short())).with_input(&bytes));
                        }
                    }
                }
            }
        }
        if i == 0 {
            res.sample = Some(json!({"case": i, "model": sprite_summary(&sp)}));
        }
        res
    });
    // corpus files as additional loadable sprites
    let corpus = crate::corpus::list(ctx);
    let cs = run_stage(ctx, "corpus", corpus.len() as u64, |i| {
        let (name, bytes) = &corpus[i as usize];
        let mut res = CaseResult::ok(crate::rng::hash_bytes(bytes), 0, "corpus");
        if let Ok(ase) = load(bytes) {
            let images = ase.width() * ase.height() <= 300 * 300;
            match routes_agree(&ase, images) {
                Ok(k) => res.leaves += k,
                Err(v) => res.violations.push(Violation { sig: format!("{}|corpus", v.sig), ..v }.with_extra(json!({"file": name}))),
            }
        }
        res
    });
    sum.merge(cs);
    // stacks with more layers than the cel chunk's 16-bit layer field can name
    let ws = run_stage(ctx, "layers-beyond-16-bits", ctx.tier.pick(4u64, 16u64), |i| {
        let mut rng = Rng::derive(ctx.seed, "C19-wide", i);
        let (sp, extra) = crate::checks::c02::wide_stack(&mut rng);
        let mut res = CaseResult::ok(gen::features(&sp) ^ extra as u64, 0, "layers-beyond-16-bits");
        let spec = compile_with(&sp, &mut rng, &Variation::none(), &crate::program::PaletteProgram::Auto);
        let (bytes, _) = encode(&spec);
        match load(&bytes) {
            Err(e) => res.violations.push(Violation::new(format!("load-failed|routes|{}", err_sig(&e)), format!("well-formed sprite with {} layers failed to load: {}", sp.layers.len(), e)).with_input(&bytes)),
            Ok(ase) => {
                res.count("cel_slots", (ase.num_frames() * ase.num_layers()) as u64);
                match routes_agree(&ase, false) {
                    Ok(k) => {
                        res.leaves += k;
                        res.count("route_comparisons", k);
                    }
                    Err(v) => res.violations.push(v.with_input(&bytes)),
                }
                for f in 0..ase.num_frames() {
                    for l in 0..ase.num_layers() {
                        let want_empty = l > 65_535 || !sp.cels.contains_key(&(f as u16, l as u16));
                        for (route, c) in [("cel(f,l)", ase.cel(f, l)), ("frame(f).layer(l)", ase.frame(f).layer(l)), ("layer(l).frame(f)", ase.layer(l).frame(f))] {
                            if c.is_empty() != want_empty {
                                res.violations.push(Violation::new("route-vs-model|is-empty", format!("{} at frame {} layer {} of {}: is_empty() = {} but the file {} a cel there", route, f, l, ase.num_layers(), !want_empty, if want_empty { "does not store" } else { "stores" })).with_input(&bytes));
                                return res;
                            }
                        }
                        res.leaves += 3;
                    }
                    // frame image against the reference renderer (the visible layers sit at both ends of the stack)
                    let got = Img::from_rgba(&ase.frame(f).image(), true);
                    let want = crate::refrender::render_frame(&sp, f as u16);
                    if let Some(d) = diff(&V::Img(got), &V::Img(want)) {
                        res.violations.push(Violation::new("wide-stack-frame-image", format!("frame {} of a {}-layer stack: {}", f, ase.num_layers(), d)).with_input(&bytes));
                    }
                    res.leaves += 1;
                }
            }
        }
        res
    });
    sum.merge(ws);
    finish(
        ctx,
        sum,
        Finish {
            rule: "PRNG-generated sprites with frames != layers, unique per-cel user data / offsets; for every (frame, layer): cel(f,l), frame(f).layer(l), layer(l).frame(f) compared on frame/layer/is_empty/top_left/is_tilemap/user_data/image; frames with exactly one visible celled layer compared with that cel's image; tilemap(l,f).image() compared with cel(f,l).image(); plus all corpus files; distinct = model feature hash".into(),
            coverage_extra: json!({"corpus_files": corpus.len()}),
            assumptions: vec![],
            exhaustive: false,
            min_evaluations: 100,
        },
    )
}
