//! Instrumented `Read` implementations: delivery schedules, transient
//! `Interrupted` results, hard faults carrying a unique marker, and a logger.

use std::io::{self, Read};

/// Delivers `data` according to a schedule of maximum chunk sizes (cycled).
pub struct Chunked<'a> {
    pub data: &'a [u8],
    pub pos: usize,
    pub schedule: Vec<usize>,
    pub k: usize,
    pub calls: u64,
}

impl<'a> Chunked<'a> {
    pub fn new(data: &'a [u8], schedule: Vec<usize>) -> Self {
        Chunked { data, pos: 0, schedule, k: 0, calls: 0 }
    }
}

impl<'a> Read for Chunked<'a> {
    fn read(&mut self, buf: &mut [u8]) -> io::Result<usize> {
        self.calls += 1;
        if buf.is_empty() {
            return Ok(0);
        }
        let cap = self.schedule[self.k % self.schedule.len()].max(1);
        self.k += 1;
        let n = cap.min(buf.len()).min(self.data.len() - self.pos);
        buf[..n].copy_from_slice(&self.data[self.pos..self.pos + n]);
        self.pos += n;
        Ok(n)
    }
}

/// Returns `ErrorKind::Interrupted` at the scheduled call indices, otherwise
/// delivers everything requested.
pub struct Interrupting<'a> {
    pub data: &'a [u8],
    pub pos: usize,
    pub call: u64,
    /// call indices at which to interrupt (sorted)
    pub at: Vec<u64>,
    pub interrupts_delivered: u64,
    /// short-read size after an interrupt (0 = full)
    pub max_chunk: usize,
}

impl<'a> Interrupting<'a> {
    pub fn new(data: &'a [u8], at: Vec<u64>, max_chunk: usize) -> Self {
        Interrupting { data, pos: 0, call: 0, at, interrupts_delivered: 0, max_chunk }
    }
}

impl<'a> Read for Interrupting<'a> {
    fn read(&mut self, buf: &mut [u8]) -> io::Result<usize> {
        let c = self.call;
        self.call += 1;
        if self.at.binary_search(&c).is_ok() {
            self.interrupts_delivered += 1;
            return Err(io::Error::new(io::ErrorKind::Interrupted, "injected transient interrupt"));
        }
        let mut n = buf.len().min(self.data.len() - self.pos);
        if self.max_chunk > 0 {
            n = n.min(self.max_chunk);
        }
        buf[..n].copy_from_slice(&self.data[self.pos..self.pos + n]);
        self.pos += n;
        Ok(n)
    }
}

#[derive(Debug)]
pub struct Marker(pub u64);
impl std::fmt::Display for Marker {
    fn fmt(&self, f: &mut std::fmt::Formatter<'_>) -> std::fmt::Result {
        write!(f, "injected fault marker {:#x}", self.0)
    }
}
impl std::error::Error for Marker {}

/// Delivers bytes [0, fail_at) and then reports a hard error of `kind`
/// carrying `Marker(marker)`. Never delivers a byte at or beyond `fail_at`.
pub struct Failing<'a> {
    pub data: &'a [u8],
    pub pos: usize,
    pub fail_at: usize,
    pub kind: io::ErrorKind,
    pub marker: u64,
    pub faults_delivered: u64,
    pub max_chunk: usize,
}

impl<'a> Failing<'a> {
    pub fn new(data: &'a [u8], fail_at: usize, kind: io::ErrorKind, marker: u64, max_chunk: usize) -> Self {
        Failing { data, pos: 0, fail_at, kind, marker, faults_delivered: 0, max_chunk }
    }
}

impl<'a> Read for Failing<'a> {
    fn read(&mut self, buf: &mut [u8]) -> io::Result<usize> {
        if buf.is_empty() {
            return Ok(0);
        }
        let limit = self.fail_at.min(self.data.len());
        if self.pos >= limit {
            if self.pos >= self.fail_at {
                self.faults_delivered += 1;
                return Err(io::Error::new(self.kind, Marker(self.marker)));
            }
            return Ok(0);
        }
        let mut n = buf.len().min(limit - self.pos);
        if self.max_chunk > 0 {
            n = n.min(self.max_chunk);
        }
        buf[..n].copy_from_slice(&self.data[self.pos..self.pos + n]);
        self.pos += n;
        Ok(n)
    }
}

/// Plain delivery; records every read() request size, and how far the loader got.
pub struct Logging<'a> {
    pub data: &'a [u8],
    pub pos: usize,
    pub calls: u64,
    /// offsets at which a read call started (read boundaries)
    pub boundaries: Vec<usize>,
    pub keep_boundaries: bool,
    pub eof_hits: u64,
}

impl<'a> Logging<'a> {
    pub fn new(data: &'a [u8], keep_boundaries: bool) -> Self {
        Logging { data, pos: 0, calls: 0, boundaries: Vec::new(), keep_boundaries, eof_hits: 0 }
    }
}

impl<'a> Read for Logging<'a> {
    fn read(&mut self, buf: &mut [u8]) -> io::Result<usize> {
        self.calls += 1;
        if self.keep_boundaries {
            self.boundaries.push(self.pos);
        }
        let n = buf.len().min(self.data.len() - self.pos);
        if n == 0 && !buf.is_empty() {
            self.eof_hits += 1;
        }
        buf[..n].copy_from_slice(&self.data[self.pos..self.pos + n]);
        self.pos += n;
        Ok(n)
    }
}
