//! Small deterministic PRNG (SplitMix64). Every random choice in the harness
//! derives from (VERIF_SEED, property tag, case index) so one case can be
//! regenerated in isolation.

#[derive(Clone, Debug)]
pub struct Rng {
    s: u64,
}

pub fn mix(mut z: u64) -> u64 {
    z = z.wrapping_add(0x9E3779B97F4A7C15);
    z = (z ^ (z >> 30)).wrapping_mul(0xBF58476D1CE4E5B9);
    z = (z ^ (z >> 27)).wrapping_mul(0x94D049BB133111EB);
    z ^ (z >> 31)
}

pub fn hash_str(s: &str) -> u64 {
    let mut h: u64 = 0xcbf29ce484222325;
    for b in s.bytes() {
        h ^= b as u64;
        h = h.wrapping_mul(0x100000001b3);
    }
    h
}

pub fn hash_bytes(bs: &[u8]) -> u64 {
    let mut h: u64 = 0xcbf29ce484222325;
    for b in bs {
        h ^= *b as u64;
        h = h.wrapping_mul(0x100000001b3);
    }
    mix(h)
}

impl Rng {
    pub fn new(seed: u64) -> Rng {
        Rng { s: mix(seed ^ 0xA5E0_F1FA_2004_2005) }
    }
    /// Derive an independent stream for (seed, tag, index).
    pub fn derive(seed: u64, tag: &str, index: u64) -> Rng {
        Rng::new(mix(seed).wrapping_add(mix(hash_str(tag))).wrapping_add(mix(index.wrapping_mul(0x2545F4914F6CDD1D) ^ 0x1234)))
    }
    pub fn next_u64(&mut self) -> u64 {
        self.s = self.s.wrapping_add(0x9E3779B97F4A7C15);
        let mut z = self.s;
        z = (z ^ (z >> 30)).wrapping_mul(0xBF58476D1CE4E5B9);
        z = (z ^ (z >> 27)).wrapping_mul(0x94D049BB133111EB);
        z ^ (z >> 31)
    }
    pub fn u32(&mut self) -> u32 {
        (self.next_u64() >> 32) as u32
    }
    pub fn u8(&mut self) -> u8 {
        (self.next_u64() >> 56) as u8
    }
    /// uniform in 0..n (n>0)
    pub fn below(&mut self, n: u64) -> u64 {
        debug_assert!(n > 0);
        ((self.next_u64() as u128 * n as u128) >> 64) as u64
    }
    pub fn usize_below(&mut self, n: usize) -> usize {
        self.below(n as u64) as usize
    }
    /// inclusive range
    pub fn range(&mut self, lo: i64, hi: i64) -> i64 {
        debug_assert!(lo <= hi);
        lo + self.below((hi - lo + 1) as u64) as i64
    }
    pub fn chance(&mut self, num: u64, den: u64) -> bool {
        self.below(den) < num
    }
    pub fn pick<'a, T>(&mut self, xs: &'a [T]) -> &'a T {
        &xs[self.usize_below(xs.len())]
    }
    pub fn bytes(&mut self, n: usize) -> Vec<u8> {
        let mut v = Vec::with_capacity(n);
        while v.len() < n {
            let x = self.next_u64().to_le_bytes();
            let k = (n - v.len()).min(8);
            v.extend_from_slice(&x[..k]);
        }
        v
    }
    pub fn shuffle<T>(&mut self, xs: &mut [T]) {
        for i in (1..xs.len()).rev() {
            let j = self.usize_below(i + 1);
            xs.swap(i, j);
        }
    }
    /// A u8 weighted towards the boundary values the properties name.
    pub fn opacity(&mut self) -> u8 {
        if self.chance(1, 2) {
            *self.pick(&[0u8, 1, 127, 128, 254, 255, 255, 255])
        } else {
            self.u8()
        }
    }
}
