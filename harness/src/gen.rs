//! Generator of well-formed sprite models under the rules the properties
//! quantify over (see DESIGN.md §4.1).

use crate::model::*;
use crate::program::PaletteProgram;
use crate::rng::Rng;
use std::collections::BTreeMap;

#[derive(Clone, Debug)]
pub struct GenCfg {
    pub max_w: u16,
    pub max_h: u16,
    pub fmt: Option<Fmt>,
    pub max_layers: usize,
    pub max_frames: usize,
    pub max_cel: u16,
    pub tilemaps: bool,
    pub groups: bool,
    pub links: bool,
    /// tags / slices / external files / user data
    pub attrs: bool,
    /// draw attribute extremes
    pub extremes: bool,
    pub blend_modes: bool,
    /// probability (in 1/8) that a (frame, layer) slot has a cel
    pub cel_density: u64,
    pub background: bool,
    /// occasionally draw 1xN / Nx1 / very tall or wide cels (N up to 300)
    pub extreme_cels: bool,
    /// occasionally draw dimensions / counts beyond 255 and 65535 (tilesets, tiles, stored maps, canvases)
    pub big: bool,
    /// tilemap cels only at tile-aligned offsets (C08's quantifier); otherwise half of them at arbitrary offsets
    pub aligned_tilemaps: bool,
    /// sometimes draw all pixels from 2-3 flat colours (runs of identical pixels)
    pub flat: bool,
    /// allow the background flag on a tilemap layer 0 (C08's relation check only)
    pub bg_tilemap: bool,
    /// the background flag may sit on any image layer, not only the lowest one
    pub bg_any: bool,
    /// linked cels carry x / y / opacity of their own that differ from their target's (they render like the target)
    pub link_junk: bool,
    /// tile 0 of a tileset may have visible pixels (checks must then stay inside the stored tile area)
    pub nonblank_tile0: bool,
}

impl GenCfg {
    pub fn small() -> GenCfg {
        GenCfg { max_w: 24, max_h: 24, fmt: None, max_layers: 8, max_frames: 5, max_cel: 20, tilemaps: true, groups: true, links: true, attrs: true, extremes: true, blend_modes: true, cel_density: 5, background: true, extreme_cels: false, big: false, aligned_tilemaps: true, flat: false, bg_tilemap: false, bg_any: false, link_junk: false, nonblank_tile0: false }
    }
    pub fn tiny() -> GenCfg {
        GenCfg { max_w: 6, max_h: 6, fmt: None, max_layers: 4, max_frames: 3, max_cel: 6, tilemaps: true, groups: true, links: true, attrs: true, extremes: false, blend_modes: true, cel_density: 5, background: true, extreme_cels: false, big: false, aligned_tilemaps: true, flat: false, bg_tilemap: false, bg_any: false, link_junk: false, nonblank_tile0: false }
    }
}

pub const NAME_POOL: [&str; 18] = ["", "a", "Layer 1", "Layer 1", "bg", "ünï cödé", "日本語レイヤー", "🙂🙃", "tab\tnew\nline", "x", "Tag", "loop", "  spaced  ", "\u{0}nul", "Layer 1\u{0}", "\u{0}", "x\u{0}\u{0}", "Tag "];

pub fn gen_name(rng: &mut Rng, extremes: bool) -> String {
    if extremes && rng.chance(1, 400) {
        // maximum length: 65535 bytes
        let mut s = String::with_capacity(65535);
        while s.len() + 3 <= 65535 {
            s.push('語');
        }
        while s.len() < 65535 {
            s.push('x');
        }
        return s;
    }
    if extremes && rng.chance(1, 150) {
        // lengths around the u8 / i16 marks
        let n = *rng.pick(&[255usize, 256, 257, 32_767, 32_768, 40_000]);
        return (0..n).map(|i| char::from(b'A' + ((i * 11 + n) % 26) as u8)).collect();
    }
    if extremes && rng.chance(1, 20) {
        let n = rng.range(20, 400) as usize;
        return (0..n).map(|i| char::from(b'a' + ((i * 7 + n) % 26) as u8)).collect();
    }
    if rng.chance(1, 5) {
        let n = rng.below(6) as usize;
        return (0..n).map(|_| *rng.pick(&['a', 'b', 'Z', '0', ' ', 'é', '語', '🙂', '_'])).collect();
    }
    rng.pick(&NAME_POOL).to_string()
}

pub fn gen_ud(rng: &mut Rng, extremes: bool) -> UserDataM {
    let text = if rng.chance(2, 3) { Some(gen_name(rng, extremes)) } else { None };
    let color = if rng.chance(1, 2) {
        // boundary colours without further draws: alpha 0 (a colour all the same) and 255 in 1/8 of the records each,
        // black in 1/16
        let mut c = [rng.u8(), rng.u8(), rng.u8(), rng.u8()];
        match c[0] & 7 {
            0 => c[3] = 0,
            1 => c[3] = 255,
            _ => {}
        }
        if c[1] & 15 == 0 {
            c[0] = 0;
            c[1] = 0;
            c[2] = 0;
        }
        Some(c)
    } else {
        None
    };
    UserDataM { text, color }
}

fn gen_opt_ud(rng: &mut Rng, cfg: &GenCfg) -> Option<UserDataM> {
    if cfg.attrs && rng.chance(1, 3) {
        Some(gen_ud(rng, cfg.extremes))
    } else {
        None
    }
}

pub fn gen_offset(rng: &mut Rng, canvas: u16, size: u16) -> i16 {
    let c = canvas as i64;
    let s = size as i64;
    let v = match rng.below(12) {
        0..=4 => rng.range(0, (c - 1).max(0)),            // on canvas
        5 => -rng.range(1, s.max(1)),                      // partly/fully off the low edge
        6 => c - rng.range(0, s.max(1)),                   // partly off the high edge
        7 => -s,                                           // just fully off
        8 => c,                                            // just fully off
        9 => *rng.pick(&[32767i64, -32768, -32767, 32766]),
        10 => rng.range(-300, 300),
        _ => 0,
    };
    v.clamp(-32768, 32767) as i16
}

/// pixel bytes drawn from 2-3 flat colours (long runs of identical pixels, identical colours across cels)
pub fn gen_flat_pixels(rng: &mut Rng, sp: &Sprite, n: usize) -> Vec<u8> {
    let bpp = sp.fmt.bpp();
    // the colour set depends only on the sprite (so different cels share colours)
    let mut crng = Rng::new(sp.width as u64 * 65_537 + sp.height as u64 * 257 + sp.transparent_index as u64);
    let k = 2 + crng.below(2) as usize;
    let colours: Vec<Vec<u8>> = (0..k).map(|_| { let mut one = gen_pixels(&mut crng, sp, 1); if bpp == 4 && one[3] == 0 { one[3] = 255 } one }).collect();
    let mut out = Vec::with_capacity(n * bpp);
    let mut cur = rng.usize_below(k);
    for _ in 0..n {
        if rng.chance(1, 6) {
            cur = rng.usize_below(k);
        }
        out.extend_from_slice(&colours[cur]);
    }
    out
}

/// Real drawings are mostly empty: whole rows, whole columns and blocks of a cel (or whole tiles) carry nothing.
/// Blanks the given rows/columns/blocks of a w x h pixel buffer ("nothing" = all-zero bytes for RGBA / grayscale,
/// the transparent index for indexed sprites whose palette has it).
pub fn sparsify(rng: &mut Rng, sp: &Sprite, pixels: &mut [u8], w: usize, h: usize) {
    let bpp = sp.fmt.bpp();
    if sp.fmt == Fmt::Indexed && !sp.palette.as_ref().map(|p| p.contains_key(&(sp.transparent_index as u32))).unwrap_or(false) {
        return;
    }
    let blank = |px: &mut [u8], i: usize| {
        if sp.fmt == Fmt::Indexed {
            px[i] = sp.transparent_index;
        } else {
            for b in &mut px[i * bpp..(i + 1) * bpp] {
                *b = 0;
            }
        }
    };
    match rng.below(4) {
        0 => {
            // every row blank with probability 1/2 (gaps between blobs), first or last row sometimes too
            for y in 0..h {
                if rng.chance(1, 2) {
                    for x in 0..w {
                        blank(pixels, y * w + x);
                    }
                }
            }
        }
        1 => {
            for x in 0..w {
                if rng.chance(1, 2) {
                    for y in 0..h {
                        blank(pixels, y * w + x);
                    }
                }
            }
        }
        2 => {
            // one painted block, everything else blank
            let (x0, y0) = (rng.usize_below(w), rng.usize_below(h));
            let (x1, y1) = (x0 + 1 + rng.usize_below(w - x0), y0 + 1 + rng.usize_below(h - y0));
            for y in 0..h {
                for x in 0..w {
                    if !(x >= x0 && x < x1 && y >= y0 && y < y1) {
                        blank(pixels, y * w + x);
                    }
                }
            }
        }
        _ => {
            // a blank leading run in every row (left part of the cel empty)
            let k = 1 + rng.usize_below(w);
            for y in 0..h {
                for x in 0..k.min(w) {
                    blank(pixels, y * w + x);
                }
            }
        }
    }
}

/// pixel bytes valid for the sprite's format
pub fn gen_pixels(rng: &mut Rng, sp: &Sprite, n: usize) -> Vec<u8> {
    match sp.fmt {
        Fmt::Rgba => {
            let mut v = rng.bytes(n * 4);
            // weight alpha towards the boundary values
            for p in v.chunks_exact_mut(4) {
                match p[3] % 8 {
                    0 => p[3] = 0,
                    1 | 2 | 3 => p[3] = 255,
                    4 => p[3] = if p[0] & 1 == 0 { 1 } else { 254 },
                    _ => {}
                }
            }
            v
        }
        Fmt::Gray => {
            let mut v = rng.bytes(n * 2);
            for p in v.chunks_exact_mut(2) {
                match p[1] % 8 {
                    0 => p[1] = 0,
                    1 | 2 | 3 => p[1] = 255,
                    _ => {}
                }
            }
            v
        }
        Fmt::Indexed => {
            let usable: Vec<u8> = sp.palette.as_ref().map(|p| p.keys().filter(|k| **k < 256).map(|k| *k as u8).collect()).unwrap_or_default();
            assert!(!usable.is_empty(), "indexed model without usable palette indices");
            let has_t = usable.contains(&sp.transparent_index);
            (0..n)
                .map(|_| {
                    if has_t && rng.chance(1, 4) {
                        sp.transparent_index
                    } else {
                        *rng.pick(&usable)
                    }
                })
                .collect()
        }
    }
}

pub fn gen_palette(rng: &mut Rng, cfg: &GenCfg, indexed: bool) -> BTreeMap<u32, PalEntryM> {
    let n = match rng.below(6) {
        0 => 1,
        1 => rng.range(2, 8),
        2 => rng.range(9, 40),
        3 => 256,
        4 => rng.range(200, 300),
        _ => rng.range(2, 64),
    } as u32;
    let first = if rng.chance(2, 3) {
        0
    } else if indexed {
        rng.range(1, 250) as u32
    } else {
        *rng.pick(&[1u32, 7, 255, 256, 300, 1000, 65535, 65536, 0x7fff_fff0, 0xffff_ff00 - 300])
    };
    let mut m = BTreeMap::new();
    for i in 0..n {
        let mut rgba = [rng.u8(), rng.u8(), rng.u8(), 255];
        if rng.chance(1, 4) {
            rgba[3] = *rng.pick(&[0u8, 1, 127, 128, 254, 200, 17]);
        }
        if rng.chance(1, 16) && i > 0 {
            // duplicate colour of the previous entry
            let prev: &PalEntryM = m.get(&(first + i - 1)).unwrap();
            rgba = prev.rgba;
        }
        let name = if cfg.attrs && rng.chance(1, 6) { Some(gen_name(rng, false)) } else { None };
        m.insert(first + i, PalEntryM { rgba, name });
    }
    m
}

pub fn gen_tileset(rng: &mut Rng, sp: &Sprite, id: u32, cfg: &GenCfg) -> TilesetM {
    // `big`: dimensions beyond what small sprites reach (tile ids >= 256 / >= 65536, tiles wider than 255 px,
    // tileset images taller than 65535 px)
    let big = cfg.big && rng.chance(1, 10);
    let (tw, th) = if big {
        match rng.below(4) {
            0 => (rng.range(256, 300) as u16, 1u16),
            1 => (1u16, rng.range(256, 300) as u16),
            // one tile has 65536 pixels or more (a product of two 16-bit fields)
            2 => *rng.pick(&[(256u16, 256u16), (300, 250), (4096, 16), (16, 4097), (65_535, 2), (2, 40_000)]),
            _ => (rng.range(1, 2) as u16, 1u16),
        }
    } else {
        (rng.range(1, 17) as u16, rng.range(1, 9) as u16)
    };
    let area = tw as u32 * th as u32;
    let maxc = (6000 / area).clamp(1, 300);
    let count = if big && area <= 2 {
        *rng.pick(&[257u32, 300, 65_536, 65_537, 70_000])
    } else if area >= 65_536 {
        rng.range(2, 3) as u32
    } else {
        match rng.below(4) {
            0 => 1,
            1 => rng.range(1, 4) as u32,
            _ => rng.range(1, maxc as i64) as u32,
        }
    };
    let mut flags = TS_EMBED;
    if rng.chance(3, 4) {
        flags |= TS_ZERO_EMPTY;
    }
    let mut ext = None;
    if cfg.attrs && rng.chance(1, 5) {
        flags |= TS_LINK;
        ext = Some((rng.u32(), rng.u32()));
    }
    let mut pixels = gen_pixels(rng, sp, (count * area) as usize);
    // tile 0 is the empty tile of a well-formed tileset: fully transparent
    if !(cfg.nonblank_tile0 && rng.chance(1, 3)) {
        let bpp = sp.fmt.bpp();
        let keep_rgb = rng.chance(1, 4);
        for k in 0..(area as usize) {
            match sp.fmt {
                Fmt::Rgba => {
                    if keep_rgb {
                        pixels[k * bpp + 3] = 0
                    } else {
                        pixels[k * bpp..k * bpp + 4].copy_from_slice(&[0, 0, 0, 0])
                    }
                }
                Fmt::Gray => {
                    if keep_rgb {
                        pixels[k * bpp + 1] = 0
                    } else {
                        pixels[k * bpp..k * bpp + 2].copy_from_slice(&[0, 0])
                    }
                }
                Fmt::Indexed => pixels[k] = sp.transparent_index,
            }
        }
    }
    // other tiles of a tileset may be blank as well (erased tiles keep their id), or mostly empty
    if count > 1 && count <= 4096 && rng.chance(1, 3) {
        let bytes_per_tile = area as usize * sp.fmt.bpp();
        for t in 1..count as usize {
            match rng.below(4) {
                0 => {
                    let has_t = sp.palette.as_ref().map(|p| p.contains_key(&(sp.transparent_index as u32))).unwrap_or(false);
                    let tile = &mut pixels[t * bytes_per_tile..(t + 1) * bytes_per_tile];
                    if sp.fmt != Fmt::Indexed {
                        tile.iter_mut().for_each(|b| *b = 0);
                    } else if has_t {
                        tile.iter_mut().for_each(|b| *b = sp.transparent_index);
                    }
                }
                1 if area > 1 => {
                    let mut tile = pixels[t * bytes_per_tile..(t + 1) * bytes_per_tile].to_vec();
                    sparsify(rng, sp, &mut tile, tw as usize, th as usize);
                    pixels[t * bytes_per_tile..(t + 1) * bytes_per_tile].copy_from_slice(&tile);
                }
                _ => {}
            }
        }
    }
    TilesetM { id, flags, count, tw, th, base_index: *rng.pick(&[1i16, 0, -1, 32767, -32768, 5]), name: gen_name(rng, false), ext, pixels }
}

/// A well-formed sprite model plus the palette program that encodes its palette.
pub fn gen_sprite(rng: &mut Rng, cfg: &GenCfg) -> (Sprite, PaletteProgram) {
    let fmt = cfg.fmt.unwrap_or_else(|| *rng.pick(&[Fmt::Rgba, Fmt::Rgba, Fmt::Gray, Fmt::Indexed, Fmt::Indexed]));
    let (width, height) = if cfg.big && rng.chance(1, 25) {
        // one dimension beyond 256, or (rarer) beyond the i16 range
        let long = if rng.chance(1, 4) { *rng.pick(&[32_767u16, 32_768, 33_000, 40_000, 65_535]) } else { rng.range(257, 400) as u16 };
        let short = if long > 1000 { 1 } else { rng.range(1, 3) as u16 };
        if rng.chance(1, 2) {
            (long, short)
        } else {
            (short, long)
        }
    } else {
        (rng.range(1, cfg.max_w as i64) as u16, rng.range(1, cfg.max_h as i64) as u16)
    };
    let nframes = rng.range(1, cfg.max_frames as i64) as usize;
    let mut sp = Sprite::blank(width, height, fmt, nframes);
    for d in sp.durations.iter_mut() {
        *d = if cfg.extremes && rng.chance(1, 4) { *rng.pick(&[0u16, 1, 65535, 32768, 255, 256]) } else { rng.range(1, 2000) as u16 };
    }
    sp.transparent_index = if rng.chance(1, 2) { 0 } else { rng.u8() };
    if fmt == Fmt::Indexed || rng.chance(1, 2) {
        sp.palette = Some(gen_palette(rng, cfg, fmt == Fmt::Indexed));
    }
    // tilesets
    let mut tileset_ids: Vec<u32> = Vec::new();
    if cfg.tilemaps && rng.chance(1, 2) {
        // the empty tile needs the transparent index to be a palette entry
        if fmt == Fmt::Indexed {
            let pal = sp.palette.as_ref().unwrap();
            if !pal.contains_key(&(sp.transparent_index as u32)) {
                let usable: Vec<u8> = pal.keys().filter(|k| **k < 256).map(|k| *k as u8).collect();
                sp.transparent_index = *rng.pick(&usable);
            }
        }
        let k = rng.range(1, 3) as usize;
        while tileset_ids.len() < k {
            let id = if rng.chance(3, 4) { tileset_ids.len() as u32 } else { *rng.pick(&[7u32, 255, 256, 65536, 0x7fff_ffff, 0xffff_ffff]) };
            if !tileset_ids.contains(&id) {
                tileset_ids.push(id);
                let t = gen_tileset(rng, &sp, id, cfg);
                sp.tilesets.push(t);
            }
        }
    }
    // layers
    let nlayers = rng.range(1, cfg.max_layers as i64) as usize;
    let mut prev_group = false;
    let mut prev_level: u16 = 0;
    for i in 0..nlayers {
        let level = if i == 0 {
            0
        } else if prev_group && rng.chance(2, 3) {
            prev_level + 1
        } else {
            rng.range(0, prev_level as i64) as u16
        };
        let kind = if cfg.groups && rng.chance(1, 4) {
            LayerKind::Group
        } else if !tileset_ids.is_empty() && rng.chance(1, 3) {
            LayerKind::Tilemap(*rng.pick(&tileset_ids))
        } else {
            LayerKind::Image
        };
        let mut flags: u16 = (rng.u32() as u16) & 0x76; // defined bits except visible, background
        if rng.chance(3, 4) {
            flags |= LF_VISIBLE;
        }
        let mut blend = if cfg.blend_modes { rng.range(0, 18) as u16 } else { 0 };
        let mut opacity = rng.opacity();
        if cfg.bg_any && i > 0 && kind == LayerKind::Image && rng.chance(1, 6) {
            flags |= LF_BACKGROUND;
        }
        if cfg.background && i == 0 && (kind == LayerKind::Image || (cfg.bg_tilemap && matches!(kind, LayerKind::Tilemap(_)))) && rng.chance(1, 4) {
            flags |= LF_BACKGROUND;
            blend = 0;
            opacity = 255;
        }
        let name = gen_name(rng, cfg.extremes);
        sp.layers.push(LayerM { flags, kind, level, blend, opacity, name, ud: gen_opt_ud(rng, cfg) });
        prev_group = kind == LayerKind::Group;
        prev_level = level;
    }
    // cels: raw / tilemap first
    let flat = cfg.flat && rng.chance(1, 4);
    for f in 0..nframes {
        for l in 0..nlayers {
            if !rng.chance(cfg.cel_density, 8) {
                continue;
            }
            match sp.layers[l].kind {
                LayerKind::Group => {}
                LayerKind::Image => {
                    let (w, h) = if cfg.extreme_cels && rng.chance(1, 12) {
                        // extreme aspect ratios and cels much larger than the canvas
                        match rng.below(5) {
                            4 if cfg.big => (rng.range(256, 300) as u16, rng.range(256, 300) as u16),
                            0 | 4 => (1u16, rng.range(40, 300) as u16),
                            1 => (rng.range(40, 300) as u16, 1u16),
                            2 => (rng.range(1, 3) as u16, rng.range(41, 120) as u16),
                            _ => (rng.range(41, 120) as u16, rng.range(1, 3) as u16),
                        }
                    } else {
                        (rng.range(1, cfg.max_cel as i64) as u16, rng.range(1, cfg.max_cel as i64) as u16)
                    };
                    // coincidences between the cel rectangle and the canvas: same area in another shape, transposed
                    // canvas, square of one canvas side, exactly the canvas
                    let coincide = (width as u32 * height as u32) <= 4096 && rng.chance(1, 10);
                    let (w, h) = if coincide {
                        let area = width as u32 * height as u32;
                        let divs: Vec<u32> = (1..=area).filter(|d| area % d == 0 && area / d <= 65_535 && *d <= 65_535).collect();
                        match rng.below(5) {
                            0 | 1 => { let d = *rng.pick(&divs); (d as u16, (area / d) as u16) }
                            2 => (height, width),
                            3 => if rng.chance(1, 2) { (width, width) } else { (height, height) },
                            _ => (width, height),
                        }
                    } else {
                        (w, h)
                    };
                    let mut pixels = if flat { gen_flat_pixels(rng, &sp, w as usize * h as usize) } else { gen_pixels(rng, &sp, w as usize * h as usize) };
                    if w as usize * h as usize >= 2 && rng.chance(1, 4) {
                        sparsify(rng, &sp, &mut pixels, w as usize, h as usize);
                    }
                    let mut c = CelM { x: gen_offset(rng, width, w), y: gen_offset(rng, height, h), opacity: rng.opacity(), content: CelContentM::Image { w, h, pixels }, ud: gen_opt_ud(rng, cfg) };
                    if coincide && rng.chance(2, 3) {
                        c.x = 0;
                        c.y = 0;
                        if rng.chance(2, 3) {
                            c.opacity = 255;
                        }
                    }
                    sp.cels.insert((f as u16, l as u16), c);
                }
                LayerKind::Tilemap(id) => {
                    let ts = sp.tileset(id).unwrap().clone();
                    let (w, h) = if cfg.big && (ts.tw >= 256 || ts.th >= 256) && rng.chance(1, 2) {
                        // pixel extent (tiles x tile size) beyond 65535 along one axis
                        if ts.tw >= 256 {
                            (rng.range(256, 300) as u16, rng.range(1, 2) as u16)
                        } else {
                            (rng.range(1, 2) as u16, rng.range(256, 300) as u16)
                        }
                    } else if cfg.big && ts.tw as u32 * ts.th as u32 <= 64 && rng.chance(1, 30) {
                        // stored maps of more than 65536 tiles
                        (rng.range(256, 300) as u16, rng.range(257, 300) as u16)
                    } else if cfg.big && rng.chance(1, 12) {
                        // stored maps wider / taller than 255 tiles
                        if rng.chance(1, 2) {
                            (rng.range(256, 300) as u16, 1u16)
                        } else {
                            (1u16, rng.range(256, 300) as u16)
                        }
                    } else {
                        (rng.range(1, 8) as u16, rng.range(1, 8) as u16)
                    };
                    let (masks, garbage): ([u32; 4], u32) = match rng.below(3) {
                        0 => ([0x1fff_ffff, 0x2000_0000, 0x4000_0000, 0x8000_0000], 0),
                        1 => ([0x0000_ffff, 0x2000_0000, 0x4000_0000, 0x8000_0000], 0x1fff_0000),
                        _ => ([0x0000_01ff, 0x0000_0200, 0x0000_0400, 0x0000_0800], 0xffff_f000),
                    };
                    let idcap = ts.count.min(masks[0].saturating_add(1).max(1));
                    let tiles: Vec<u32> = (0..(w as usize * h as usize))
                        .map(|_| {
                            let id = if rng.chance(1, 4) {
                                0
                            } else if idcap > 256 && rng.chance(1, 2) {
                                // ids above 255 / 65535 when the tileset is that large
                                idcap - 1 - rng.below((idcap as u64 - 256).min(64)) as u32
                            } else {
                                rng.below(idcap as u64) as u32
                            };
                            id | (rng.u32() & garbage)
                        })
                        .collect();
                    // tile-aligned offsets from far negative to beyond the canvas
                    let kx = rng.range(-(w as i64) - 1, (width as i64 / ts.tw as i64) + 1);
                    let ky = rng.range(-(h as i64) - 1, (height as i64 / ts.th as i64) + 1);
                    let x = (kx * ts.tw as i64).clamp(-32768 / ts.tw as i64 * ts.tw as i64, 32767 / ts.tw as i64 * ts.tw as i64) as i16;
                    let y = (ky * ts.th as i64).clamp(-32768 / ts.th as i64 * ts.th as i64, 32767 / ts.th as i64 * ts.th as i64) as i16;
                    let (x, y) = if !cfg.aligned_tilemaps && rng.chance(1, 2) {
                        // arbitrary (not tile-aligned) offsets: partly cut tiles at every canvas edge
                        (gen_offset(rng, width, (w as u32 * ts.tw as u32).min(65_535) as u16), gen_offset(rng, height, (h as u32 * ts.th as u32).min(65_535) as u16))
                    } else {
                        (x, y)
                    };
                    let c = CelM { x, y, opacity: rng.opacity(), content: CelContentM::Tilemap { w, h, tiles, masks }, ud: gen_opt_ud(rng, cfg) };
                    sp.cels.insert((f as u16, l as u16), c);
                }
            }
        }
    }
    // links: a link targets a frame whose cel on the same layer is a raw image
    if cfg.links && nframes > 1 {
        for l in 0..nlayers {
            if sp.layers[l].kind == LayerKind::Group {
                continue;
            }
            // link targets: cels that hold data of their own (images, and tilemaps on tilemap layers)
            let raw_frames: Vec<u16> = (0..nframes as u16).filter(|f| matches!(sp.cels.get(&(*f, l as u16)).map(|c| &c.content), Some(CelContentM::Image { .. }) | Some(CelContentM::Tilemap { .. }))).collect();
            if raw_frames.is_empty() {
                continue;
            }
            for f in 0..nframes as u16 {
                if rng.chance(1, 5) {
                    let t = *rng.pick(&raw_frames);
                    if t == f {
                        continue;
                    }
                    // do not turn a link target into a link
                    let is_target = sp.cels.iter().any(|((_, cl), c)| *cl == l as u16 && c.content == CelContentM::Link(f));
                    if is_target {
                        continue;
                    }
                    let tc = sp.cels.get(&(t, l as u16)).unwrap();
                    let mut link = CelM { x: tc.x, y: tc.y, opacity: tc.opacity, content: CelContentM::Link(t), ud: gen_opt_ud(rng, cfg) };
                    if cfg.link_junk && rng.chance(1, 2) {
                        // fields of the link chunk itself: far away, on the canvas, or opacity 0 / 255
                        link.x = *rng.pick(&[0i16, 100, -2, 4, 32_767, -32_768, tc.x.wrapping_add(1)]);
                        link.y = *rng.pick(&[0i16, 100, -2, 4, tc.y.wrapping_sub(1)]);
                        link.opacity = *rng.pick(&[0u8, 255, 128, tc.opacity]);
                    }
                    sp.cels.insert((f, l as u16), link);
                }
            }
            // repair: a link whose target was itself turned into a link afterwards is removed
            let keys: Vec<(u16, u16)> = sp.cels.keys().cloned().filter(|k| k.1 == l as u16).collect();
            for k in keys {
                if let CelContentM::Link(t) = sp.cels[&k].content {
                    let ok = matches!(sp.cels.get(&(t, k.1)).map(|c| &c.content), Some(CelContentM::Image { .. }) | Some(CelContentM::Tilemap { .. }));
                    if !ok {
                        sp.cels.remove(&k);
                    }
                }
            }
        }
    }
    if cfg.attrs {
        // tags
        if rng.chance(1, 2) {
            let k = rng.range(1, 6) as usize;
            let with_ud = rng.below(k as u64 + 1) as usize; // records form a prefix
            for i in 0..k {
                let (from, to) = if cfg.extremes && rng.chance(1, 4) { (*rng.pick(&[0u16, 65535, 1, 32768]), *rng.pick(&[0u16, 65535, 1, 32767])) } else { (rng.below(nframes as u64) as u16, rng.below(nframes as u64) as u16) };
                sp.tags.push(TagM {
                    from,
                    to,
                    dir: rng.below(3) as u8,
                    repeat: if rng.chance(1, 2) { 0 } else { *rng.pick(&[1u16, 2, 255, 256, 65535, 7]) },
                    color: rng.u32(),
                    name: gen_name(rng, cfg.extremes),
                    ud: if i < with_ud { Some(gen_ud(rng, cfg.extremes)) } else { None },
                });
            }
            if k >= 2 && rng.chance(1, 3) {
                // several tags chunks; the records after each chunk go to a prefix of ITS tags
                let a = rng.range(1, k as i64 - 1) as usize;
                sp.tag_chunks = vec![a, k - a];
                let mut start = 0;
                for n in sp.tag_chunks.clone() {
                    let w = rng.below(n as u64 + 1) as usize;
                    for j in 0..n {
                        let keep = j < w;
                        let t = &mut sp.tags[start + j];
                        if keep && t.ud.is_none() {
                            t.ud = Some(gen_ud(rng, cfg.extremes));
                        } else if !keep {
                            t.ud = None;
                        }
                    }
                    start += n;
                }
            }
        }
        // slices
        if rng.chance(1, 2) {
            let k = rng.range(1, 4) as usize;
            for _ in 0..k {
                let flags = rng.below(4) as u32;
                let nk = rng.range(0, 4) as usize;
                let ext_i = |r: &mut Rng| -> i32 {
                    if r.chance(1, 3) {
                        *r.pick(&[i32::MIN, i32::MAX, -1, 0, 1, -32768, 65536])
                    } else {
                        r.range(-100, 100) as i32
                    }
                };
                let ext_u = |r: &mut Rng| -> u32 {
                    if r.chance(1, 3) {
                        *r.pick(&[0u32, u32::MAX, 0x8000_0000, 0x7fff_ffff, 1, 65536])
                    } else {
                        r.range(0, 200) as u32
                    }
                };
                let keys = (0..nk)
                    .map(|_| SliceKeyM {
                        frame: ext_u(rng),
                        x: ext_i(rng),
                        y: ext_i(rng),
                        w: ext_u(rng),
                        h: ext_u(rng),
                        center: if flags & 1 != 0 { Some((ext_i(rng), ext_i(rng), ext_u(rng), ext_u(rng))) } else { None },
                        pivot: if flags & 2 != 0 { Some((ext_i(rng), ext_i(rng))) } else { None },
                    })
                    .collect();
                sp.slices.push(SliceM { name: gen_name(rng, cfg.extremes), flags, keys, ud: gen_opt_ud(rng, cfg) });
            }
        }
        // external files
        if rng.chance(1, 3) {
            let k = rng.range(1, 5) as usize;
            let mut ids: Vec<u32> = Vec::new();
            while ids.len() < k {
                let id = if rng.chance(2, 3) { ids.len() as u32 + 1 } else { *rng.pick(&[0u32, 255, 65536, 0x7fff_ffff, 0x8000_0000, 0xffff_ffff]) };
                if !ids.contains(&id) {
                    ids.push(id);
                    sp.ext_files.push(ExtFileM { id, name: gen_name(rng, cfg.extremes) });
                }
            }
        }
        if !sp.ext_files.is_empty() {
            // several entries naming the same file (one file can be referenced under several ids) ...
            if rng.chance(1, 3) {
                let shared = sp.ext_files[0].name.clone();
                while sp.ext_files.len() < 8 {
                    let id = 1000 + sp.ext_files.len() as u32 * 7;
                    sp.ext_files.push(ExtFileM { id, name: shared.clone() });
                }
                for e in sp.ext_files.iter_mut() {
                    if rng.chance(3, 4) {
                        e.name = shared.clone();
                    }
                }
            }
            // ... and tileset links that point at entries which exist
            let ids: Vec<u32> = sp.ext_files.iter().map(|e| e.id).collect();
            for t in sp.tilesets.iter_mut() {
                if let Some((fid, _)) = t.ext.as_mut() {
                    if rng.chance(2, 3) {
                        *fid = *rng.pick(&ids);
                    }
                }
            }
        }
        if sp.palette.is_some() && rng.chance(1, 3) {
            sp.sprite_ud = Some(gen_ud(rng, cfg.extremes));
        }
    }
    (sp, PaletteProgram::Auto)
}

/// Feature vector used to count distinct non-trivial cases.
pub fn features(sp: &Sprite) -> u64 {
    let mut h = crate::rng::mix(sp.fmt.bpp() as u64);
    let mut add = |x: u64| h = crate::rng::mix(h ^ x.wrapping_mul(0x9E3779B97F4A7C15));
    add(sp.width as u64 | (sp.height as u64) << 16);
    add(sp.durations.len() as u64);
    for l in &sp.layers {
        add(l.flags as u64 | (l.level as u64) << 16 | (l.blend as u64) << 32 | (l.opacity as u64) << 48);
        add(crate::rng::hash_str(&l.name));
    }
    for ((f, l), c) in &sp.cels {
        add(*f as u64 | (*l as u64) << 16 | (c.x as u16 as u64) << 32 | (c.y as u16 as u64) << 48);
        add(c.opacity as u64);
        match &c.content {
            CelContentM::Image { w, h: hh, pixels } => {
                add(*w as u64 | (*hh as u64) << 16);
                add(crate::rng::hash_bytes(pixels));
            }
            CelContentM::Link(t) => add(0xAAAA_0000 | *t as u64),
            CelContentM::Tilemap { w, h: hh, tiles, .. } => {
                add(0xBBBB_0000_0000 | *w as u64 | (*hh as u64) << 16);
                add(tiles.iter().fold(0u64, |a, t| crate::rng::mix(a ^ *t as u64)));
            }
        }
    }
    add(sp.tags.len() as u64 | (sp.slices.len() as u64) << 8 | (sp.ext_files.len() as u64) << 16 | (sp.tilesets.len() as u64) << 24);
    add(sp.palette.as_ref().map(|p| p.len() as u64 + 1).unwrap_or(0));
    h
}
