//! C16 (d): the shared-reference workload under Miri (data-race / UB
//! detector). Tiny sprites; several threads probe one &AsepriteFile.
//! Run with: MIRIFLAGS="-Zmiri-many-seeds=0..N" cargo +nightly miri run --bin c16_miri -- <seed> <sprites>
use asemon::c16::*;
use asemon::encode::encode;
use asemon::gen::{self, GenCfg};
use asemon::model::*;
use asemon::program::{compile_with, Variation};
use asemon::rng::Rng;
use std::sync::Barrier;

fn main() {
    let args: Vec<String> = std::env::args().collect();
    let seed: u64 = args.get(1).and_then(|s| s.parse().ok()).unwrap_or(1);
    let sprites: u64 = args.get(2).and_then(|s| s.parse().ok()).unwrap_or(2);
    let mut calls = 0u64;
    for i in 0..sprites {
        let mut rng = Rng::derive(seed, "C16-miri", i);
        let mut cfg = GenCfg::tiny();
        cfg.max_w = 4;
        cfg.max_h = 4;
        cfg.max_cel = 3;
        cfg.max_layers = 3;
        cfg.max_frames = 2;
        cfg.attrs = i % 2 == 0;
        cfg.fmt = Some([Fmt::Indexed, Fmt::Rgba, Fmt::Gray][(i % 3) as usize]);
        // Miri interprets ~10^4 times slower than native code: keep the sprite tiny in every respect
        // (tile_image converts the whole tileset on every call, so the tile count matters quadratically)
        let (sp, pp) = loop {
            let (sp, pp) = gen::gen_sprite(&mut rng, &cfg);
            let small = sp.tilesets.iter().all(|t| t.count <= 4 && t.tw as u32 * t.th as u32 <= 16)
                && sp.tags.len() + sp.slices.len() + sp.ext_files.len() <= 12
                && sp.layers.iter().all(|l| l.name.len() <= 40)
                && sp.palette.as_ref().map_or(true, |p| p.len() <= 40);
            if small {
                break (sp, pp);
            }
        };
        let mut v = Variation::none();
        v.default_storage = Storage::Stored(64);
        let bytes = encode(&compile_with(&sp, &mut rng, &v, &pp)).0;
        let ase = asefile::AsepriteFile::read(&bytes[..]).expect("well-formed sprite must load");
        let probes: Vec<Probe> = probes_for(&ase).into_iter().filter(|p| !matches!(p, Probe::DebugText)).collect();
        let reference: Vec<u64> = probes.iter().map(|p| p.eval(&ase)).collect();
        let nthreads = 3;
        let barrier = Barrier::new(nthreads);
        std::thread::scope(|s| {
            for t in 0..nthreads {
                let (ase, probes, reference, barrier) = (&ase, &probes, &reference, &barrier);
                s.spawn(move || {
                    barrier.wait();
                    for k in 0..probes.len() {
                        let idx = (k * 7 + t * 3) % probes.len();
                        assert_eq!(probes[idx].eval(ase), reference[idx], "probe {:?} differs on thread {}", probes[idx], t);
                    }
                });
            }
        });
        calls += (probes.len() * nthreads) as u64;
        // a second load of the same bytes observes the same
        let again = asefile::AsepriteFile::read(&bytes[..]).unwrap();
        for (k, p) in probes.iter().enumerate() {
            assert_eq!(p.eval(&again), reference[k], "probe {:?} differs between loads", p);
        }
    }
    println!("c16_miri ok seed={} sprites={} concurrent_probe_calls={}", seed, sprites, calls);
}
