use asemon::common::*;

#[global_allocator]
static GLOBAL: asemon::allocmon::CountingAlloc = asemon::allocmon::CountingAlloc;
use std::path::PathBuf;
use std::time::Instant;

fn main() {
    let args: Vec<String> = std::env::args().collect();
    if args.len() < 2 {
        eprintln!("usage: asemon <PROPERTY|subcommand> [--tier quick|thorough] [--seed N] [--replay file]");
        std::process::exit(2);
    }
    let prop = args[1].clone();
    let mut tier = match std::env::var("VERIF_TIER").as_deref() {
        Ok("thorough") => Tier::Thorough,
        _ => Tier::Quick,
    };
    let mut seed: u64 = std::env::var("VERIF_SEED").ok().and_then(|s| s.trim().parse().ok()).unwrap_or(1);
    let mut replay = None;
    let mut threads = std::thread::available_parallelism().map(|n| n.get()).unwrap_or(8).min(16);
    let mut i = 2;
    let mut rest: Vec<String> = Vec::new();
    while i < args.len() {
        match args[i].as_str() {
            "--tier" => {
                i += 1;
                tier = if args.get(i).map(|s| s.as_str()) == Some("thorough") { Tier::Thorough } else { Tier::Quick };
            }
            "--seed" => {
                i += 1;
                seed = args.get(i).and_then(|s| s.parse().ok()).unwrap_or(seed);
            }
            "--replay" => {
                i += 1;
                replay = args.get(i).map(PathBuf::from);
            }
            "--threads" => {
                i += 1;
                threads = args.get(i).and_then(|s| s.parse().ok()).unwrap_or(threads);
            }
            other => rest.push(other.to_string()),
        }
        i += 1;
    }
    if let Some(rp) = &replay {
        if let Ok(t) = std::fs::read_to_string(rp) {
            if let Ok(v) = serde_json::from_str::<serde_json::Value>(&t) {
                if let Some(s) = v.get("seed").and_then(|x| x.as_u64()) {
                    seed = s;
                }
                if let Some(t) = v.get("tier").and_then(|x| x.as_str()) {
                    tier = if t == "thorough" { Tier::Thorough } else { Tier::Quick };
                }
            }
        } else {
            eprintln!("cannot read replay file {}", rp.display());
            std::process::exit(2);
        }
    }
    let verif_dir = PathBuf::from(std::env::var("ASEMON_VERIF_DIR").unwrap_or_else(|_| "/verif".into()));
    let repo_dir = PathBuf::from(std::env::var("ASEMON_REPO").unwrap_or_else(|_| "/repo".into()));
    install_panic_hook();
    let ctx = Ctx { prop: prop.clone(), tier, seed, verif_dir, repo_dir, start: Instant::now(), threads, replay, level: "exploration", write_evidence: true };
    let code = asemon::checks::run(&ctx, &rest);
    std::process::exit(code);
}
