//! Compile-time clause of C16: "the sprite type is Send and Sync so it can be
//! shared across threads". This file only has to COMPILE; the C16 check treats
//! a Send/Sync bound error from rustc as the violation witness.
fn assert_send_sync<T: Send + Sync>() {}

fn main() {
    assert_send_sync::<asefile::AsepriteFile>();
    // shared references handed to other threads are what users rely on
    fn assert_send<T: Send>() {}
    assert_send::<&asefile::AsepriteFile>();
    assert_send::<std::sync::Arc<asefile::AsepriteFile>>();
    println!("AsepriteFile: Send + Sync");
}
