//! C04 / C05 under Miri (thorough tier): a sample of hostile inputs (written to
//! a directory by `asemon gen-hostile-sample`, natively) is loaded and, when
//! accepted, walked inside the UB-detecting interpreter. This observes undefined
//! behaviour in the library's dependencies (inflate, image buffers) on malformed
//! data; panics are reported as well.
//! Run with: MIRIFLAGS=-Zmiri-disable-isolation cargo +nightly miri run --bin c04_miri -- <dir>
fn main() {
    let dir = std::env::args().nth(1).expect("usage: c04_miri <dir>");
    let mut files: Vec<_> = std::fs::read_dir(&dir).expect("read dir").filter_map(|e| e.ok()).map(|e| e.path()).collect();
    files.sort();
    let (mut loaded, mut rejected) = (0u64, 0u64);
    for (k, f) in files.iter().enumerate() {
        let bytes = std::fs::read(f).expect("read file");
        match asefile::AsepriteFile::read(&bytes[..]) {
            Ok(ase) => {
                loaded += 1;
                if (ase.width() as u64) * (ase.height() as u64) <= 256 && ase.num_frames() * ase.num_layers() <= 16 {
                    let st = asemon::walk::walk(&ase, k as u64, 40);
                    assert!(st.dim_error.is_none(), "documented dimension violated: {:?} ({})", st.dim_error, f.display());
                }
            }
            Err(e) => {
                rejected += 1;
                let _ = e.to_string();
            }
        }
    }
    println!("c04_miri ok inputs={} loaded={} rejected={}", files.len(), loaded, rejected);
}
