//! C16 — a loaded sprite is an immutable, thread-safe value; results are
//! deterministic. Behavioural part: repetition, permutation, concurrency on a
//! shared reference, fresh loads. (Cross-profile comparison, Miri and TSan are
//! orchestrated by the check driver; see DESIGN.md C16.)

use asemon::c16::*;
use asemon::common::*;
use asemon::encode::encode;
use asemon::gen::{self, GenCfg};
use asemon::model::*;
use asemon::program::{compile_with, Variation};
use asemon::rng::Rng;
use asemon::util::*;
use asefile::AsepriteFile;
use serde_json::json;
use std::collections::{HashMap, HashSet};
use std::path::PathBuf;
use std::sync::atomic::{AtomicU64, Ordering};
use std::sync::{Barrier, Mutex};
use std::time::Instant;

#[global_allocator]
static GLOBAL: asemon::allocmon::CountingAlloc = asemon::allocmon::CountingAlloc;

fn c16_sprite(rng: &mut Rng, i: u64) -> (Sprite, asemon::program::PaletteProgram) {
    let mut cfg = GenCfg::small();
    cfg.max_w = 10;
    cfg.max_h = 10;
    cfg.max_cel = 8;
    cfg.max_layers = 6;
    cfg.max_frames = 4;
    cfg.extremes = false;
    // exercise the Arc-shared palette (indexed), hash-ordered collections, tilemaps, links
    match i % 3 {
        0 => cfg.fmt = Some(Fmt::Indexed),
        _ => {}
    }
    let (mut sp, pp) = gen::gen_sprite(rng, &cfg);
    if i % 4 == 1 {
        // 9..16 tags drawn from three or four names (animations re-used under the same name), and layers that share
        // names: by-name lookups have several candidates
        let names = ["walk", "idle", "attack", "walk "];
        let nf = sp.durations.len() as u16;
        sp.tags.clear();
        sp.tag_chunks.clear();
        for k in 0..rng.range(9, 16) as u16 {
            sp.tags.push(TagM { from: k % nf, to: (k % nf).max(rng.below(nf as u64) as u16), dir: (k % 3) as u8, repeat: 0, color: 0x0010_2030 + k as u32, name: names[rng.usize_below(if k < 3 { 3 } else { 4 })].to_string(), ud: None });
        }
        for (k, l) in sp.layers.iter_mut().enumerate() {
            if rng.chance(1, 2) {
                l.name = ["Shadow", "FX", "Outline"][k % 2 + rng.usize_below(2)].to_string();
            }
        }
    }
    if i % 2 == 0 {
        // >= 8 external files and several tilesets: HashMap iteration order matters
        sp.ext_files.clear();
        for k in 0..rng.range(8, 14) as u32 {
            // every other such sprite: only two distinct file names among the entries (several ids for one file)
            sp.ext_files.push(ExtFileM { id: k * 7 + 1, name: if i % 4 == 2 { format!("ext{}", k % 2) } else { format!("ext{}", k) } });
        }
        // tileset links that resolve to those entries (embedded tilesets may carry a link as well)
        let ids: Vec<u32> = sp.ext_files.iter().map(|e| e.id).collect();
        for t in sp.tilesets.iter_mut() {
            if rng.chance(2, 3) {
                t.flags |= TS_LINK;
                t.ext = Some((*rng.pick(&ids), rng.u32() % 5));
            }
        }
    }
    (sp, pp)
}

/// A sprite of identical shape whose tileset (else cel) bytes differ in a way that keeps byte sum and Adler-32 equal:
/// +1, -2, +1 on three neighbouring bytes (found where the values allow it). None when no such place exists.
fn near_duplicate(sp: &Sprite) -> Option<Sprite> {
    fn tweak(bytes: &mut [u8], from: usize) -> bool {
        if bytes.len() < from + 3 {
            return false;
        }
        for i in from..bytes.len() - 2 {
            if bytes[i] < 255 && bytes[i + 1] >= 2 && bytes[i + 2] < 255 {
                bytes[i] += 1;
                bytes[i + 1] -= 2;
                bytes[i + 2] += 1;
                return true;
            }
        }
        false
    }
    if sp.fmt == Fmt::Indexed {
        return None; // pixel values are palette indices: a changed index may not exist
    }
    let mut sp2 = sp.clone();
    for ts in sp2.tilesets.iter_mut() {
        let area = ts.tw as usize * ts.th as usize * sp.fmt.bpp();
        if tweak(&mut ts.pixels, area) {
            return Some(sp2);
        }
    }
    // (cel pixels are not used: a changed pixel may lie outside the canvas and be invisible to every probe)
    None
}

/// One sprite: sequential reference, repetitions in shuffled order, threads on a shared reference, fresh loads.
fn check_sprite(ctx: &Ctx, i: u64, overlap_pairs: &Mutex<HashSet<(String, String)>>) -> CaseResult {
    let mut rng = Rng::derive(ctx.seed, "C16", i);
    let (sp, pp) = c16_sprite(&mut rng, i);
    let bytes = encode(&compile_with(&sp, &mut rng, &Variation::none(), &pp)).0;
    let mut res = CaseResult::ok(gen::features(&sp), 0, "sprite");
    let ase = match load(&bytes) {
        Ok(a) => a,
        Err(e) => {
            res.violations.push(Violation::new(format!("load-failed|c16|{}", err_sig(&e)), format!("well-formed sprite failed to load: {}", e)).with_input(&bytes));
            return res;
        }
    };
    let probes = probes_for(&ase);
    // reference: first sequential observation
    let reference: Vec<u64> = probes.iter().map(|p| p.eval(&ase)).collect();
    let rounds = ctx.tier.pick(6, 24);
    // (b) repetition and permutation on one thread
    for r in 0..rounds {
        let mut order: Vec<usize> = (0..probes.len()).collect();
        rng.shuffle(&mut order);
        for k in order {
            let v = probes[k].eval(&ase);
            res.leaves += 1;
            if v != reference[k] {
                res.violations.push(Violation::new(format!("nondeterministic|repeat|{}", normalise_digits(&probes[k].key())), format!("probe {} returned a different result in round {} of shuffled sequential calls", probes[k].key(), r)).with_input(&bytes).with_extra(json!({"probe": probes[k].key(), "round": r, "model": sprite_summary(&sp)})));
                return res;
            }
        }
    }
    res.count("sequential_probe_calls", rounds as u64 * probes.len() as u64);
    // (b) threads on a shared reference
    let nthreads = [2usize, 4, 8, 16][(i % 4) as usize];
    let ticket = AtomicU64::new(0);
    let barrier = Barrier::new(nthreads);
    let log: Mutex<Vec<(u64, u64, usize, usize)>> = Mutex::new(Vec::new()); // (start, end, thread, probe)
    let bad: Mutex<Option<(usize, usize)>> = Mutex::new(None);
    let seeds: Vec<u64> = (0..nthreads).map(|_| rng.next_u64()).collect();
    let trounds = ctx.tier.pick(3, 12);
    std::thread::scope(|s| {
        for t in 0..nthreads {
            let (ase, probes, reference, ticket, barrier, log, bad) = (&ase, &probes, &reference, &ticket, &barrier, &log, &bad);
            let seed = seeds[t];
            s.spawn(move || {
                let mut r = Rng::new(seed);
                let mut local = Vec::new();
                barrier.wait();
                for _ in 0..trounds {
                    let mut order: Vec<usize> = (0..probes.len()).collect();
                    r.shuffle(&mut order);
                    for k in order {
                        let a = ticket.fetch_add(1, Ordering::SeqCst);
                        let v = probes[k].eval(ase);
                        let b = ticket.fetch_add(1, Ordering::SeqCst);
                        local.push((a, b, t, k));
                        if v != reference[k] {
                            *bad.lock().unwrap() = Some((t, k));
                        }
                    }
                }
                log.lock().unwrap().extend(local);
            });
        }
    });
    let log = log.into_inner().unwrap();
    res.leaves += log.len() as u64;
    res.count("concurrent_probe_calls", log.len() as u64);
    res.count(&format!("sprites_with_{:02}_threads", nthreads), 1);
    // overlapping executions actually observed (different threads, intersecting ticket intervals)
    let mut overlaps = 0u64;
    {
        let mut sorted = log.clone();
        sorted.sort();
        let mut set = overlap_pairs.lock().unwrap();
        for (idx, a) in sorted.iter().enumerate() {
            for b in sorted[idx + 1..].iter() {
                if b.0 > a.1 {
                    break;
                }
                if a.2 != b.2 {
                    overlaps += 1;
                    if set.len() < 200_000 {
                        let (x, y) = (normalise_digits(&probes[a.3].key()), normalise_digits(&probes[b.3].key()));
                        set.insert(if x <= y { (x, y) } else { (y, x) });
                    }
                }
            }
        }
    }
    res.count("overlapping_probe_executions_observed", overlaps);
    if let Some((t, k)) = bad.into_inner().unwrap() {
        res.violations.push(Violation::new(format!("nondeterministic|threads|{}", normalise_digits(&probes[k].key())), format!("probe {} returned a different result on thread {} of {} sharing one &AsepriteFile", probes[k].key(), t, nthreads)).with_input(&bytes).with_extra(json!({"probe": probes[k].key(), "threads": nthreads, "model": sprite_summary(&sp)})));
        return res;
    }
    // (c) fresh loads of the same bytes (new RandomState each)
    let loads = ctx.tier.pick(3, 8);
    for n in 0..loads {
        match load(&bytes) {
            Err(e) => res.violations.push(Violation::new("nondeterministic|reload-failed", format!("load {} of the same bytes failed: {}", n + 2, e)).with_input(&bytes)),
            Ok(other) => {
                // each fresh instance is touched in a different order from its very first call on,
                // so a result that depends on which accessor ran first (lazy caches) shows up
                let mut order: Vec<usize> = (0..probes.len()).collect();
                rng.shuffle(&mut order);
                if n % 2 == 1 {
                    order.reverse();
                }
                for k in order {
                    let p = &probes[k];
                    if !p.cross_load() {
                        continue;
                    }
                    res.leaves += 1;
                    if p.eval(&other) != reference[k] {
                        res.violations.push(Violation::new(format!("nondeterministic|reload|{}", normalise_digits(&p.key())), format!("probe {} differs between two loads of the same bytes probed in different call orders", p.key())).with_input(&bytes).with_extra(json!({"probe": p.key(), "model": sprite_summary(&sp)})));
                        return res;
                    }
                }
            }
        }
    }
    res.count("fresh_loads", loads as u64);
    // (c2) calls that are DOCUMENTED to panic (arguments out of range), caught: the value is immutable, so every probe
    // must still return what it returned before
    {
        let quiet = asemon::common::guarded(|| {
            let _ = std::panic::catch_unwind(std::panic::AssertUnwindSafe(|| ase.frame(ase.num_frames())));
            let _ = std::panic::catch_unwind(std::panic::AssertUnwindSafe(|| ase.layer(ase.num_layers())));
            let _ = std::panic::catch_unwind(std::panic::AssertUnwindSafe(|| ase.cel(ase.num_frames(), 0)));
            for ts in ase.tilesets().iter() {
                let _ = std::panic::catch_unwind(std::panic::AssertUnwindSafe(|| ts.tile_image(ts.tile_count())));
                let _ = std::panic::catch_unwind(std::panic::AssertUnwindSafe(|| ts.tile_image(u32::MAX)));
            }
        });
        let _ = quiet;
        for (k, p) in probes.iter().enumerate() {
            let r = asemon::common::guarded(|| p.eval(&ase));
            res.leaves += 1;
            match r {
                Ok(v) if v == reference[k] => {}
                Ok(_) => {
                    res.violations.push(Violation::new(format!("nondeterministic|after-caught-panic|{}", normalise_digits(&p.key())), format!("probe {} returns a different result after out-of-range calls (documented panics) were made and caught", p.key())).with_input(&bytes));
                    return res;
                }
                Err(pi) => {
                    res.violations.push(Violation::new(format!("nondeterministic|after-caught-panic|{}|panics", normalise_digits(&p.key())), format!("probe {} panics ({}) after out-of-range calls (documented panics) were made and caught; it returned normally before", p.key(), pi.message)).with_input(&bytes));
                    return res;
                }
            }
        }
        res.count("probes_after_caught_panics", probes.len() as u64);
    }
    // (c3) history: loads that FAIL (cut zlib streams, truncated files, corrupted bytes) on this thread, then the
    // original bytes again - a load depends on its bytes only, not on what was loaded before
    {
        let mut failed = 0u64;
        for k in 0..6u64 {
            let mut bad = bytes.clone();
            match k % 3 {
                0 => bad.truncate(bad.len() * (40 + 10 * k as usize) / 100),
                1 => {
                    // corrupt the tail of the file (cel payloads / zlib streams live there)
                    let n = bad.len();
                    for j in 0..(n / 8).max(1) {
                        let p = n - 1 - (j * 7 + k as usize) % (n / 2).max(1);
                        bad[p] ^= 0x5a;
                    }
                }
                _ => {
                    let p = 128 + (rng.usize_below(bad.len().saturating_sub(129).max(1)));
                    let p = p.min(bad.len() - 1);
                    bad[p] = bad[p].wrapping_add(1 + k as u8);
                }
            }
            if asemon::common::guarded(|| load(&bad).is_err()).unwrap_or(true) {
                failed += 1;
            }
        }
        res.count("failed_loads_before_reload", failed);
        match load(&bytes) {
            Err(e) => {
                res.violations.push(Violation::new(format!("nondeterministic|reload-after-failed-loads|{}", err_sig(&e)), format!("after {} failing loads on the same thread the original bytes no longer load: {}", failed, e)).with_input(&bytes));
                return res;
            }
            Ok(other) => {
                for (k, p) in probes.iter().enumerate() {
                    if p.cross_load() && p.eval(&other) != reference[k] {
                        res.violations.push(Violation::new(format!("nondeterministic|reload-after-failed-loads|{}", normalise_digits(&p.key())), format!("probe {} differs on a load of the same bytes made after {} failing loads on the same thread", p.key(), failed)).with_input(&bytes));
                        return res;
                    }
                    res.leaves += 1;
                }
            }
        }
    }
    // (c4) coexistence: a near-duplicate sprite (same shapes; tileset / cel bytes changed so that simple checksums -
    // byte sum, xor of swapped pairs, Adler-32 - stay the same) is alive while the original is loaded and probed again,
    // and the near-duplicate itself must show ITS pixels while the original is alive
    if let Some(sp2) = near_duplicate(&sp) {
        let bytes2 = encode(&compile_with(&sp2, &mut Rng::derive(ctx.seed, "C16", i), &Variation::none(), &pp)).0;
        if let Ok(twin) = load(&bytes2) {
            let tp = probes_for(&twin);
            let tref: Vec<u64> = tp.iter().map(|p| p.eval(&twin)).collect();
            // a fresh load of the original while the twin is alive
            if let Ok(again) = load(&bytes) {
                for (k, p) in probes.iter().enumerate() {
                    if p.cross_load() && p.eval(&again) != reference[k] {
                        res.violations.push(Violation::new(format!("nondeterministic|reload-next-to-near-duplicate|{}", normalise_digits(&p.key())), format!("probe {} differs on a load made while a sprite of identical shape and checksum-equal pixel data is alive", p.key())).with_input(&bytes));
                        return res;
                    }
                    res.leaves += 1;
                }
            }
            drop(twin);
            res.count("near_duplicates_probed", 1);
            let tref_next_to_original = tref;
            // a second load of the twin (on a thread of its own) must observe the same as the first ...
            let second = {
                let b2 = bytes2.clone();
                std::thread::spawn(move || load(&b2).ok().map(|t| probes_for(&t).iter().map(|p| p.eval(&t)).collect::<Vec<u64>>())).join().ok().flatten()
            };
            if let Some(a) = second {
                // ... and the twin's tileset pixels differ from the original's, so its observations cannot all be equal
                // to the original's
                let cross: Vec<bool> = probes.iter().map(|p| p.cross_load()).collect();
                let eq_twins = a.len() == tref_next_to_original.len() && a.iter().zip(tref_next_to_original.iter()).zip(cross.iter().chain(std::iter::repeat(&true))).all(|((x, y), c)| !*c || x == y);
                if !eq_twins {
                    res.violations.push(Violation::new("nondeterministic|near-duplicate-reload", "two loads of the near-duplicate sprite observe different results".to_string()).with_input(&bytes2));
                    return res;
                }
                let same_as_original = a.len() == reference.len() && a.iter().zip(reference.iter()).zip(probes.iter()).all(|((x, y), p)| !p.cross_load() || x == y);
                if same_as_original {
                    res.violations.push(Violation::new("nondeterministic|near-duplicate-shows-the-other-sprite", "a sprite whose pixel data differs from another live sprite's (same shapes, equal simple checksums) is observed with exactly the other sprite's results".to_string()).with_input(&bytes2));
                    return res;
                }
            }
        }
    }
    if i == 0 {
        res.sample = Some(json!({"case": i, "model": sprite_summary(&sp), "probes": probes.iter().take(10).map(|p| p.key()).collect::<Vec<_>>(), "threads": nthreads}));
    }
    res
}

fn main() {
    let args: Vec<String> = std::env::args().collect();
    let mut tier = match std::env::var("VERIF_TIER").as_deref() {
        Ok("thorough") => Tier::Thorough,
        _ => Tier::Quick,
    };
    let mut seed: u64 = std::env::var("VERIF_SEED").ok().and_then(|s| s.trim().parse().ok()).unwrap_or(1);
    let mut i = 1;
    let mut extra_files: Vec<PathBuf> = Vec::new();
    let mut logs: Vec<(String, PathBuf, i32)> = Vec::new(); // (tool, log file, exit status)
    let mut no_evidence = false;
    let mut n_override: Option<u64> = None;
    while i < args.len() {
        match args[i].as_str() {
            "--tier" => {
                i += 1;
                tier = if args.get(i).map(|s| s.as_str()) == Some("thorough") { Tier::Thorough } else { Tier::Quick };
            }
            "--seed" => {
                i += 1;
                seed = args.get(i).and_then(|s| s.parse().ok()).unwrap_or(seed);
            }
            "--extra" => {
                i += 1;
                if let Some(p) = args.get(i) {
                    extra_files.push(PathBuf::from(p));
                }
            }
            "--tool-log" => {
                // --tool-log <miri|tsan> <file> <exit status>
                let tool = args.get(i + 1).cloned().unwrap_or_default();
                let file = PathBuf::from(args.get(i + 2).cloned().unwrap_or_default());
                let st = args.get(i + 3).and_then(|s| s.parse().ok()).unwrap_or(0);
                logs.push((tool, file, st));
                i += 3;
            }
            "--no-evidence" => no_evidence = true,
            "--sprites" => {
                i += 1;
                n_override = args.get(i).and_then(|s| s.parse().ok());
            }
            _ => {}
        }
        i += 1;
    }
    install_panic_hook();
    let verif_dir = PathBuf::from(std::env::var("ASEMON_VERIF_DIR").unwrap_or_else(|_| "/verif".into()));
    let repo_dir = PathBuf::from(std::env::var("ASEMON_REPO").unwrap_or_else(|_| "/repo".into()));
    // sprites run one after another: each one spawns up to 16 threads itself
    let ctx = Ctx { prop: "C16".into(), tier, seed, verif_dir, repo_dir, start: Instant::now(), threads: 4, replay: None, level: "exploration", write_evidence: !no_evidence };
    let n = n_override.unwrap_or(tier.pick(240u64, 5000u64));
    let overlap_pairs: Mutex<HashSet<(String, String)>> = Mutex::new(HashSet::new());
    let mut sum = run_cases(&ctx, n, |i| check_sprite(&ctx, i, &overlap_pairs));
    let distinct_pairs = overlap_pairs.lock().unwrap().len();
    // results of the driver-orchestrated parts (send/sync probe, cross-profile, Miri, TSan)
    let mut extra = json!({});
    for p in extra_files {
        if let Ok(t) = std::fs::read_to_string(&p) {
            if let Ok(v) = serde_json::from_str::<serde_json::Value>(&t) {
                // violations found by the driver-orchestrated parts
                if let Some(arr) = v.get("violations").and_then(|x| x.as_array()) {
                    for (k, item) in arr.iter().enumerate() {
                        let mut cr = CaseResult::default();
                        let mut viol = Violation::new(item["sig"].as_str().unwrap_or("?").to_string(), item["detail"].as_str().unwrap_or("").to_string());
                        if let Some(h) = item["input_hex"].as_str() {
                            viol.input = Some(asemon::val::unhex(h));
                        }
                        viol.extra = item.clone();
                        cr.violations.push(viol);
                        sum.absorb(1_000_000 + k as u64, cr);
                        sum.evaluations -= 1;
                    }
                }
                if let Some(arr) = v.get("inconclusive").and_then(|x| x.as_array()) {
                    for item in arr {
                        sum.inconclusive.push(item.as_str().unwrap_or("?").to_string());
                    }
                }
                if let Some(c) = v.get("counters").and_then(|x| x.as_object()) {
                    for (k, val) in c {
                        *sum.counters.entry(k.clone()).or_insert(0) += val.as_u64().unwrap_or(0);
                    }
                }
                if let (Some(o), Some(e)) = (extra.as_object_mut(), v.get("coverage").and_then(|x| x.as_object())) {
                    for (k, val) in e {
                        o.insert(k.clone(), val.clone());
                    }
                }
            }
        } else {
            sum.inconclusive.push(format!("cannot read {}", p.display()));
        }
    }
    // logs of the dynamic tools (Miri / TSan) run by the driver on the shared-reference workload
    for (tool, file, status) in logs {
        let text = std::fs::read_to_string(&file).unwrap_or_default();
        let runs = text.matches("c16_miri ok").count() + text.matches("held on everything explored").count();
        let report = text.contains("Undefined Behavior") || text.contains("Data race detected") || text.contains("data race") || text.contains("ThreadSanitizer") || text.contains("assertion `left == right` failed") || text.contains("panicked at");
        if let Some(o) = extra.as_object_mut() {
            o.insert(format!("{}_runs_completed", tool), json!(runs));
            o.insert(format!("{}_exit_status", tool), json!(status));
        }
        *sum.counters.entry(format!("{}_runs_completed", tool)).or_insert(0) += runs as u64;
        if report {
            let mut cr = CaseResult::default();
            let first = text.lines().find(|l| l.contains("Undefined Behavior") || l.contains("ata race") || l.contains("ThreadSanitizer") || l.contains("panicked at")).unwrap_or("").trim().to_string();
            let kind = if first.contains("ata race") || first.contains("ThreadSanitizer") { "data-race" } else if first.contains("panicked") || first.contains("assertion") { "nondeterministic" } else { "undefined-behaviour" };
            let mut v = Violation::new(format!("{}|{}", tool, kind), format!("{} reported on the shared-reference workload: {}", tool, first));
            v.extra = json!({"tool": tool, "log_tail": text.lines().rev().take(40).collect::<Vec<_>>().into_iter().rev().collect::<Vec<_>>()});
            cr.violations.push(v);
            sum.absorb(2_000_000, cr);
            sum.evaluations -= 1;
        } else if status != 0 || runs == 0 {
            sum.inconclusive.push(format!("{} did not complete (exit status {}, {} completed runs): {}", tool, status, runs, text.lines().rev().find(|l| !l.trim().is_empty()).unwrap_or("")));
        }
    }
    let mut cov = json!({"distinct_overlapping_probe_pairs_observed": distinct_pairs, "threads_per_sprite": [2, 4, 8, 16]});
    if let (Some(o), Some(e)) = (cov.as_object_mut(), extra.as_object()) {
        for (k, v) in e {
            o.insert(k.clone(), v.clone());
        }
    }
    let _: HashMap<u8, u8> = HashMap::new();
    let code = finish(
        &ctx,
        sum,
        Finish {
            rule: "per generated sprite (indexed palettes shared through Arc, >= 8 external files / several tilesets for hash order, tilemaps, links): keyed probes (structure, cels, every frame image, every cel image, tilemaps, tileset images, Debug text, visibility, tile lookups); reference = first sequential observation; then shuffled repetitions on one thread, 2/4/8/16 threads on one shared &AsepriteFile released by a barrier (executions logged with global tickets to count overlapping probe pairs actually observed), and fresh loads of the same bytes; plus (driver) compile-time Send+Sync probe, per-input outcome digests compared between the dev/checked and stock release binaries over well-formed and hostile inputs, Miri with many seeds on the shared-reference workload (thorough: TSan); distinct = model feature hash".into(),
            coverage_extra: cov,
            assumptions: vec!["Debug text and documented arbitrary iteration order are compared only within one instance; across loads collections are compared sorted by id".into(), "the Send + Sync clause is decided by compiling src/bin/sendsync_probe.rs (a static fact; the thread workload cannot be built without it)".into()],
            exhaustive: false,
            min_evaluations: 50,
        },
    );
    std::process::exit(code);
}
