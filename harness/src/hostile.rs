//! Hostile input generators (C04, C05, C12): field-directed corruption via
//! the FieldMap, model-level inconsistencies that need consistent framing,
//! and unstructured damage. Everything is reproducible from (seed, base, sub).

use crate::encode::{encode, walk_file, FieldMap, Kind};
use crate::gen::{self, GenCfg};
use crate::model::*;
use crate::program::{compile_with, Variation};
use crate::rng::Rng;

pub struct Input {
    /// operator family, used in signatures ("field:len", "model:cel_payload_short", ...)
    pub operator: String,
    /// human-readable description of this particular mutation
    pub label: String,
    pub bytes: Vec<u8>,
}

pub struct Base {
    pub sprite: Option<Sprite>,
    pub spec: Option<FileSpec>,
    pub bytes: Vec<u8>,
    pub map: FieldMap,
    pub name: String,
}

pub fn generated_base(seed: u64, b: u64) -> Base {
    let mut rng = Rng::derive(seed, "hostile-base", b);
    let mut cfg = GenCfg::tiny();
    cfg.max_layers = 5;
    cfg.max_frames = 3;
    cfg.max_w = 10;
    cfg.max_h = 10;
    cfg.max_cel = 6;
    if b % 3 == 0 {
        cfg.fmt = Some(Fmt::Indexed);
    }
    // make sure tilemaps / links / groups appear regularly
    let mut best = gen::gen_sprite(&mut rng, &cfg);
    for _ in 0..6 {
        let want_tm = b % 2 == 0;
        let has_tm = best.0.cels.values().any(|c| matches!(c.content, CelContentM::Tilemap { .. }));
        if want_tm == has_tm {
            break;
        }
        best = gen::gen_sprite(&mut rng, &cfg);
    }
    let (mut sp, pp) = best;
    if (b / 2) % 2 == 1 {
        // long names mixing 1- to 4-byte characters with a short ASCII prefix, so that character boundaries fall on
        // every byte offset modulo 4 (error messages, truncations and previews that slice names by bytes)
        let mut long_name = |rng: &mut Rng| -> String {
            let mut s: String = (0..rng.below(4)).map(|_| 'x').collect();
            let n = rng.range(36, 90) as usize;
            while s.len() < n {
                s.push(*rng.pick(&['é', '語', '🙂', 'a', 'ß', '€']));
            }
            s
        };
        for l in sp.layers.iter_mut() {
            l.name = long_name(&mut rng);
        }
        for t in sp.tags.iter_mut() {
            t.name = long_name(&mut rng);
        }
        for s in sp.slices.iter_mut() {
            s.name = long_name(&mut rng);
        }
        for t in sp.tilesets.iter_mut() {
            t.name = long_name(&mut rng);
        }
        for e in sp.ext_files.iter_mut() {
            e.name = long_name(&mut rng);
        }
    }
    let mut v = Variation::none();
    v.storage = true;
    v.ignorable = rng.chance(1, 2);
    let spec = compile_with(&sp, &mut rng, &v, &pp);
    let (bytes, map) = encode(&spec);
    Base { sprite: Some(sp), spec: Some(spec), bytes, map, name: format!("gen{}", b) }
}

pub fn corpus_base(name: &str, bytes: Vec<u8>) -> Option<Base> {
    let map = walk_file(&bytes)?;
    Some(Base { sprite: None, spec: None, bytes, map, name: format!("corpus:{}", name) })
}

pub fn boundary_values(width: usize, cur: u64) -> Vec<u64> {
    let max: u64 = if width >= 8 { u64::MAX } else { (1u64 << (8 * width)) - 1 };
    let mut v: Vec<u64> = vec![0, 1, 2, 3, cur.wrapping_sub(1) & max, cur.wrapping_add(1) & max, cur.wrapping_mul(2) & max, 0x7f, 0x80, 0xff];
    if width >= 2 {
        v.extend_from_slice(&[0x100, 0x7fff, 0x8000, 0xffff]);
    }
    if width >= 4 {
        v.extend_from_slice(&[0x10000, 0x7fff_ffff, 0x8000_0000, 0xffff_ffff, 0xffff_fff0]);
    }
    v.retain(|x| *x <= max && *x != cur);
    v.sort_unstable();
    v.dedup();
    v
}

pub fn read_field(bytes: &[u8], off: usize, width: usize) -> u64 {
    let mut x = 0u64;
    for k in 0..width.min(8) {
        x |= (bytes[off + k] as u64) << (8 * k);
    }
    x
}

pub fn write_field(bytes: &mut [u8], off: usize, width: usize, v: u64) {
    for k in 0..width.min(8) {
        bytes[off + k] = (v >> (8 * k)) as u8;
    }
}

/// strip indices from a field name: "f0.c12:cel.layer" -> "cel.layer"
pub fn field_class(name: &str) -> String {
    let tail = name.rsplit(':').next().unwrap_or(name);
    let tail = if name.contains(':') { tail.to_string() } else { name.split('.').skip_while(|p| p.starts_with('f') && p[1..].chars().all(|c| c.is_ascii_digit())).collect::<Vec<_>>().join(".") };
    crate::common::normalise_digits(&tail)
}

/// All single-field boundary corruptions of a base.
pub fn field_inputs(base: &Base, only_inflate: bool) -> Vec<Input> {
    let mut out = Vec::new();
    for f in &base.map.fields {
        if !f.kind.structural() || f.width > 4 {
            continue;
        }
        if only_inflate && !matches!(f.kind, Kind::Len | Kind::Count | Kind::Size | Kind::Index) {
            continue;
        }
        let cur = read_field(&base.bytes, f.off, f.width);
        for v in boundary_values(f.width, cur) {
            if only_inflate && v <= cur {
                continue;
            }
            let mut b = base.bytes.clone();
            write_field(&mut b, f.off, f.width, v);
            out.push(Input { operator: format!("field:{}:{}", f.kind.name(), field_class(&f.name)), label: format!("{}: {} ({}) {} -> {}", base.name, f.name, f.kind.name(), cur, v), bytes: b });
        }
    }
    out
}

/// Two neighbouring declared sizes / counts inflated TOGETHER (a cap computed from one declared field by
/// another declared field is no cap): every pair of length / count / size fields at most three fields apart,
/// both set to their type maximum and both set to a large-but-plausible value.
pub fn pair_field_inputs(base: &Base) -> Vec<Input> {
    let fields: Vec<_> = base.map.fields.iter().filter(|f| f.width >= 2 && f.width <= 4 && matches!(f.kind, Kind::Len | Kind::Count | Kind::Size)).collect();
    let mut out = Vec::new();
    for i in 0..fields.len() {
        for j in i + 1..(i + 4).min(fields.len()) {
            for big in [true, false] {
                let mut b = base.bytes.clone();
                let mut desc = Vec::new();
                for f in [fields[i], fields[j]] {
                    let max = (1u64 << (8 * f.width)) - 1;
                    let v = if big { max } else if f.width == 4 { 60_000_016 } else { 0xfff0 };
                    write_field(&mut b, f.off, f.width, v);
                    desc.push(format!("{}={}", f.name, v));
                }
                out.push(Input { operator: "field:pair".into(), label: format!("{}: {}", base.name, desc.join(", ")), bytes: b });
            }
        }
    }
    out
}

/// WELL-FORMED, both dimensions of the frame x layer table at the format's maximum: 65535 frames x 65536 layers,
/// an empty image cel on the top layer in frame 0 and a linked cel to it in every other frame (a 4.2 MB file).
pub fn sparse_table_max_bytes() -> Vec<u8> {
    let (nf, nl) = (65_535usize, 65_536usize);
    let mut sp = Sprite::blank(1, 1, Fmt::Rgba, nf);
    for _ in 0..nl {
        sp.layers.push(LayerM::image(""));
    }
    let top = (nl - 1) as u16;
    sp.cels.insert((0, top), CelM { x: 0, y: 0, opacity: 255, content: CelContentM::Image { w: 0, h: 0, pixels: vec![] }, ud: None });
    for f in 1..nf {
        sp.cels.insert((f as u16, top), CelM { x: 0, y: 0, opacity: 255, content: CelContentM::Link(0), ud: None });
    }
    let mut v = Variation::none();
    v.default_storage = Storage::Raw;
    let mut r = Rng::new(4);
    encode(&crate::program::compile(&sp, &mut r, &v)).0
}

/// Every string of the file (names, user-data text) overwritten in place with byte sequences that are not UTF-8.
pub fn string_inputs(base: &Base) -> Vec<Input> {
    let mut out = Vec::new();
    let fs = &base.map.fields;
    for k in 1..fs.len() {
        let (l, s) = (&fs[k - 1], &fs[k]);
        if s.kind != Kind::Payload || l.kind != Kind::Len || l.name != format!("{}.len", s.name) || s.width == 0 {
            continue;
        }
        let variants: [(&str, &[u8]); 6] = [("ff", &[0xff]), ("overlong-nul", &[0xc0, 0x80]), ("lone-surrogate", &[0xed, 0xa0, 0x80]), ("cut-multibyte", &[0xe6]), ("continuation-only", &[0x80, 0xbf]), ("beyond-u+10ffff", &[0xf4, 0x90, 0x80, 0x80])];
        for (vn, pat) in variants {
            let mut b = base.bytes.clone();
            // the pattern is written at the END of the string (a cut sequence must end it), the rest stays
            let n = pat.len().min(s.width);
            let at = s.off + s.width - n;
            b[at..at + n].copy_from_slice(&pat[..n]);
            if std::str::from_utf8(&b[s.off..s.off + s.width]).is_ok() {
                continue;
            }
            out.push(Input { operator: "string:invalid-utf8".into(), label: format!("{}: {} ends in {} ({:02x?})", base.name, s.name, vn, &pat[..n]), bytes: b });
        }
    }
    out
}

pub fn multi_field_inputs(base: &Base, rng: &mut Rng, n: usize) -> Vec<Input> {
    let fields: Vec<_> = base.map.fields.iter().filter(|f| f.kind.structural() && f.width <= 4).collect();
    let mut out = Vec::new();
    if fields.is_empty() {
        return out;
    }
    for _ in 0..n {
        let k = rng.range(2, 3) as usize;
        let mut b = base.bytes.clone();
        let mut desc = Vec::new();
        for _ in 0..k {
            let f = fields[rng.usize_below(fields.len())];
            let cur = read_field(&b, f.off, f.width);
            let vals = boundary_values(f.width, cur);
            if vals.is_empty() {
                continue;
            }
            let v = vals[rng.usize_below(vals.len())];
            write_field(&mut b, f.off, f.width, v);
            desc.push(format!("{}={}", f.name, v));
        }
        out.push(Input { operator: "field:multi".into(), label: format!("{}: {}", base.name, desc.join(", ")), bytes: b });
    }
    out
}

pub fn unstructured_inputs(base: &Base, rng: &mut Rng, n: usize) -> Vec<Input> {
    let mut out = Vec::new();
    let len = base.bytes.len();
    for k in 0..n {
        let mut b = base.bytes.clone();
        let (op, label) = match k % 6 {
            0 => {
                let flips = rng.range(1, 8);
                for _ in 0..flips {
                    let p = rng.usize_below(len);
                    b[p] ^= 1 << rng.below(8);
                }
                ("bitflips", format!("{} bit flips", flips))
            }
            1 => {
                let p = rng.usize_below(len);
                b[p] = rng.u8();
                ("byte", format!("byte {} randomised", p))
            }
            2 => {
                let p = rng.usize_below(len + 1);
                let n = rng.range(1, 9) as usize;
                let ins = rng.bytes(n);
                b.splice(p..p, ins);
                ("insert", format!("{} bytes inserted at {}", n, p))
            }
            3 => {
                let p = rng.usize_below(len);
                let n = (rng.range(1, 16) as usize).min(len - p);
                b.drain(p..p + n);
                ("delete", format!("{} bytes deleted at {}", n, p))
            }
            4 => {
                let cut = rng.usize_below(len);
                b.truncate(cut);
                ("truncate", format!("truncated to {}", cut))
            }
            _ => {
                // splice a region onto another
                let n = (rng.range(2, 40) as usize).min(len / 2);
                let a = rng.usize_below(len - n);
                let c = rng.usize_below(len - n);
                let tmp: Vec<u8> = b[a..a + n].to_vec();
                b[c..c + n].copy_from_slice(&tmp);
                ("splice", format!("{} bytes copied from {} to {}", n, a, c))
            }
        };
        out.push(Input { operator: format!("unstructured:{}", op), label: format!("{}: {}", base.name, label), bytes: b });
    }
    out
}

// ---------------------------------------------------------------------------
// model-level inconsistencies
// ---------------------------------------------------------------------------

fn cel_positions(spec: &FileSpec, pred: &dyn Fn(&CelM) -> bool) -> Vec<(usize, usize)> {
    let mut v = Vec::new();
    for (fi, fr) in spec.frames.iter().enumerate() {
        for (ci, c) in fr.chunks.iter().enumerate() {
            if let ChunkSpec::Cel { c: cel, .. } = &c.spec {
                if pred(cel) {
                    v.push((fi, ci));
                }
            }
        }
    }
    v
}

fn chunk_positions(spec: &FileSpec, kind: &str) -> Vec<(usize, usize)> {
    let mut v = Vec::new();
    for (fi, fr) in spec.frames.iter().enumerate() {
        for (ci, c) in fr.chunks.iter().enumerate() {
            if c.spec.kind_name() == kind {
                v.push((fi, ci));
            }
        }
    }
    v
}

pub const MODEL_OPS: [&str; 67] = [
    "cel_payload_short",
    "cel_payload_long",
    "cel_decl_bigger",
    "cel_decl_huge",
    "tile_id_oob",
    "tilemap_payload_short",
    "tilemap_decl_huge",
    "tileset_count_plus",
    "tileset_count_minus",
    "tileset_area_mismatch",
    "tileset_zero_size",
    "tileset_product_overflow",
    "tileset_decl_huge",
    "cel_layer_oob_raw",
    "cel_layer_oob_link",
    "cel_layer_oob_tilemap",
    "link_frame_oob",
    "link_to_missing",
    "link_to_link",
    "link_alias",
    "first_layer_level",
    "level_jump",
    "nested_groups",
    "tilemap_cel_on_image_layer",
    "image_cel_on_tilemap_layer",
    "cel_on_group_layer",
    "palette_last_lt_first",
    "palette_range_overflow",
    "palette_count_huge",
    "frame_bytes_lie",
    "deflate_bomb",
    "dangling_user_data",
    "dup_cel",
    "dup_tileset",
    "missing_tileset",
    "too_many_tag_records",
    "cel_layer65535_many_frames",
    "chunk_4gib",
    "zlib_garbage",
    "zero_frames",
    "zero_canvas",
    "huge_canvas",
    "ext_files_count_huge",
    "slice_keys_count_huge",
    "tags_count_huge",
    "random_chunk_type",
    "sparse_cel_table",
    "link_to_image_cel_on_tilemap_layer",
    "tags_in_later_frame",
    "sixbit_component_out_of_range",
    "palette_shifted_high",
    "many_wide_tags",
    "late_tile_id_oob",
    "late_cel_payload_short",
    "late_link_to_missing",
    "late_tileset_mismatch",
    "declared_frames_tall_stack",
    "tilemap_extent_i32",
    "tileset_strip_height_u32",
    "palette_colliding_keys",
    "transparent_index_without_entry",
    "many_links_to_big_tilemap",
    "big_honest_cel",
    "palette_chunk_sequence",
    "tileset_million_tiny_tiles",
    "palette_hundreds_of_thousands",
    "tilemap_huge_off_canvas",
];

fn fmt_of(spec: &FileSpec) -> Fmt {
    spec.fmt
}

fn add_layer(spec: &mut FileSpec, l: LayerM) {
    // after the last layer chunk of frame 0 (or at the end of frame 0)
    let pos = spec.frames[0].chunks.iter().rposition(|c| matches!(c.spec, ChunkSpec::Layer { .. })).map(|p| p + 1).unwrap_or(spec.frames[0].chunks.len());
    spec.frames[0].chunks.insert(pos, ChunkSpec::Layer { l, junk: LayerJunk { default_w: 0, default_h: 0, r1: 0, r2: 0 } }.into());
}

fn n_layers(spec: &FileSpec) -> usize {
    spec.frames.iter().map(|f| f.chunks.iter().filter(|c| matches!(c.spec, ChunkSpec::Layer { .. })).count()).sum()
}

fn raw_cel(layer: u16, fmt: Fmt, w: u16, h: u16) -> ChunkSpec {
    ChunkSpec::Cel { layer, c: CelM { x: 0, y: 0, opacity: 255, content: CelContentM::Image { w, h, pixels: vec![0; w as usize * h as usize * fmt.bpp()] }, ud: None }, storage: Storage::Zlib(6), reserved: [0; 7], cel_type_override: None }
}

/// Apply model-level operator `op` to a copy of the base's program. Returns None when not applicable.
pub fn model_input(base: &Base, op: usize, rng: &mut Rng, deep_groups: usize) -> Option<Input> {
    let mut spec = base.spec.clone()?;
    let name = MODEL_OPS[op];
    let fmt = fmt_of(&spec);
    let bpp = fmt.bpp();
    let mut label = String::new();
    let image_cels = cel_positions(&spec, &|c| matches!(c.content, CelContentM::Image { .. }));
    let tm_cels = cel_positions(&spec, &|c| matches!(c.content, CelContentM::Tilemap { .. }));
    let link_cels = cel_positions(&spec, &|c| matches!(c.content, CelContentM::Link(_)));
    let tilesets = chunk_positions(&spec, "tileset");
    let nl = n_layers(&spec);
    let nf = spec.frames.len();
    macro_rules! cel_mut {
        ($pos:expr) => {
            match &mut spec.frames[$pos.0].chunks[$pos.1].spec {
                ChunkSpec::Cel { c, layer, storage, .. } => (c, layer, storage),
                _ => unreachable!(),
            }
        };
    }
    macro_rules! tileset_mut {
        ($pos:expr) => {
            match &mut spec.frames[$pos.0].chunks[$pos.1].spec {
                ChunkSpec::Tileset { t, .. } => t,
                _ => unreachable!(),
            }
        };
    }
    match name {
        "cel_payload_short" | "cel_payload_long" | "cel_decl_bigger" | "cel_decl_huge" => {
            if image_cels.is_empty() {
                return None;
            }
            let pos = *rng.pick(&image_cels);
            let (c, _, storage) = cel_mut!(pos);
            if let CelContentM::Image { w, h, pixels } = &mut c.content {
                match name {
                    "cel_payload_short" => {
                        let cut = (rng.range(1, 3) as usize * bpp).min(pixels.len());
                        pixels.truncate(pixels.len() - cut);
                        label = format!("cel {}x{} payload short by {} bytes ({:?})", w, h, cut, storage);
                    }
                    "cel_payload_long" => {
                        let extra = rng.range(1, 5) as usize * bpp;
                        let e: Vec<u8> = pixels[..extra.min(pixels.len())].to_vec();
                        pixels.extend(e);
                        label = format!("cel {}x{} payload long by {} bytes ({:?})", w, h, extra, storage);
                    }
                    "cel_decl_bigger" => {
                        if rng.chance(1, 2) {
                            *w += rng.range(1, 3) as u16
                        } else {
                            *h += rng.range(1, 3) as u16
                        }
                        label = format!("cel declares {}x{} but carries {} bytes ({:?})", w, h, pixels.len(), storage);
                    }
                    _ => {
                        *w = 65535;
                        *h = *rng.pick(&[65535u16, 32768, 4096]);
                        label = format!("cel declares {}x{} but carries {} bytes ({:?})", w, h, pixels.len(), storage);
                    }
                }
            }
        }
        "tile_id_oob" | "tilemap_payload_short" | "tilemap_decl_huge" => {
            if tm_cels.is_empty() {
                return None;
            }
            let pos = *rng.pick(&tm_cels);
            let (c, _, _) = cel_mut!(pos);
            if let CelContentM::Tilemap { w, h, tiles, masks } = &mut c.content {
                match name {
                    "tile_id_oob" => {
                        let k = rng.usize_below(tiles.len());
                        let v = *rng.pick(&[300u32, 0x1fff_ffff, 65535, 1 << 20]) & masks[0];
                        tiles[k] = v;
                        label = format!("tile {} of {}x{} map set to id {}", k, w, h, v);
                    }
                    "tilemap_payload_short" => {
                        let cut = (rng.range(1, 3) as usize).min(tiles.len());
                        tiles.truncate(tiles.len() - cut);
                        label = format!("tilemap {}x{} carries {} tiles", w, h, tiles.len());
                    }
                    _ => {
                        *w = 65535;
                        *h = 65535;
                        label = format!("tilemap declares 65535x65535 but carries {} tiles", tiles.len());
                    }
                }
            }
        }
        "tileset_count_plus" | "tileset_count_minus" | "tileset_area_mismatch" | "tileset_zero_size" | "tileset_product_overflow" | "tileset_decl_huge" => {
            if tilesets.is_empty() {
                return None;
            }
            let pos = *rng.pick(&tilesets);
            let t = tileset_mut!(pos);
            match name {
                "tileset_count_plus" => {
                    t.count += rng.range(1, 3) as u32;
                }
                "tileset_count_minus" => {
                    if t.count < 2 {
                        return None;
                    }
                    if rng.chance(1, 3) {
                        // a consistent EMPTY tileset (no tiles, an empty pixel stream) under the tilemap cels that use it
                        t.count = 0;
                        t.pixels.clear();
                    } else {
                        t.count -= 1;
                    }
                }
                "tileset_area_mismatch" => {
                    if rng.chance(1, 2) {
                        t.tw += 1
                    } else {
                        t.th += 1
                    }
                }
                "tileset_zero_size" => {
                    match rng.below(3) {
                        0 => t.tw = 0,
                        1 => t.th = 0,
                        _ => {
                            t.tw = 0;
                            t.th = 0
                        }
                    }
                    if rng.chance(1, 2) {
                        t.pixels.clear();
                    }
                }
                "tileset_product_overflow" => {
                    let (c, w, h) = *rng.pick(&[(0x10000u32, 0x100u16, 0x100u16), (0xffff_ffff, 0xffff, 0xffff), (0x8000_0000, 2, 1), (0x4000_0001, 4, 1), (65537, 65535, 1)]);
                    t.count = c;
                    t.tw = w;
                    t.th = h;
                    if rng.chance(1, 2) {
                        t.pixels.clear();
                    }
                }
                _ => {
                    t.count = *rng.pick(&[0x00ff_ffffu32, 0x0100_0000, 1 << 20]);
                }
            }
            label = format!("tileset {} declares count {} tile {}x{} with {} pixel bytes", t.id, t.count, t.tw, t.th, t.pixels.len());
        }
        "cel_layer_oob_raw" | "cel_layer_oob_link" | "cel_layer_oob_tilemap" => {
            let pool = match name {
                "cel_layer_oob_raw" => &image_cels,
                "cel_layer_oob_link" => &link_cels,
                _ => &tm_cels,
            };
            if pool.is_empty() {
                return None;
            }
            let pos = *rng.pick(pool);
            let (_, layer, _) = cel_mut!(pos);
            *layer = *rng.pick(&[nl as u16, nl as u16 + 1, 255, 256, 65535, 32768]);
            label = format!("cel in frame {} references layer {} of {}", pos.0, layer, nl);
        }
        "link_frame_oob" | "link_to_missing" | "link_to_link" | "link_alias" => {
            // build a link cel on an image layer
            if image_cels.is_empty() || nl == 0 {
                return None;
            }
            let src = *rng.pick(&image_cels);
            let layer = match &spec.frames[src.0].chunks[src.1].spec {
                ChunkSpec::Cel { layer, .. } => *layer,
                _ => unreachable!(),
            };
            // a frame where this layer has no cel yet; append a frame if needed
            let mut target_frame = (0..nf).find(|f| !spec.frames[*f].chunks.iter().any(|c| matches!(&c.spec, ChunkSpec::Cel { layer: l, .. } if *l == layer)));
            if target_frame.is_none() {
                spec.frames.push(FrameSpec::new(50));
                spec.header.frames += 1;
                target_frame = Some(spec.frames.len() - 1);
            }
            let tf = target_frame.unwrap();
            let nf2 = spec.frames.len();
            let (to, lyr) = match name {
                "link_frame_oob" => (*rng.pick(&[nf2 as u16, nf2 as u16 + 1, 65535, 32768]), layer),
                "link_to_missing" => {
                    // a frame (other than tf) where the layer has no cel: append one
                    spec.frames.push(FrameSpec::new(50));
                    spec.header.frames += 1;
                    ((spec.frames.len() - 1) as u16, layer)
                }
                "link_to_link" => {
                    // tf links to src frame; another new frame links to tf
                    spec.frames[tf].chunks.push(ChunkSpec::Cel { layer, c: CelM { x: 0, y: 0, opacity: 255, content: CelContentM::Link(src.0 as u16), ud: None }, storage: Storage::Raw, reserved: [0; 7], cel_type_override: None }.into());
                    spec.frames.push(FrameSpec::new(50));
                    spec.header.frames += 1;
                    let nfx = spec.frames.len() - 1;
                    spec.frames[nfx].chunks.push(ChunkSpec::Cel { layer, c: CelM { x: 0, y: 0, opacity: 255, content: CelContentM::Link(tf as u16), ud: None }, storage: Storage::Raw, reserved: [0; 7], cel_type_override: None }.into());
                    label = format!("link in frame {} targets frame {} which is itself a link", nfx, tf);
                    (u16::MAX, layer)
                }
                _ => {
                    // layer >= L chosen so that frame*L + layer aliases the linkable cel (src.0, layer)
                    // target index = to*L + lyr must equal src.0*L + layer  with lyr >= L
                    if src.0 == 0 || nl == 0 {
                        return None;
                    }
                    ((src.0 - 1) as u16, (layer as usize + nl) as u16)
                }
            };
            if name != "link_to_link" {
                spec.frames[tf].chunks.push(ChunkSpec::Cel { layer: lyr, c: CelM { x: 0, y: 0, opacity: 255, content: CelContentM::Link(to), ud: None }, storage: Storage::Raw, reserved: [0; 7], cel_type_override: None }.into());
                label = format!("link cel frame {} layer {} -> frame {} ({} frames, {} layers)", tf, lyr, to, spec.frames.len(), nl);
                if rng.chance(1, 2) {
                    // a user-data record for that cel: whatever the parser does with the record happens BEFORE the
                    // link is validated
                    spec.frames[tf].chunks.push(ChunkSpec::UserData(UserDataM { text: Some("on the link".into()), color: Some([1, 2, 3, 4]) }).into());
                    label.push_str(", followed by a user-data record");
                }
            }
        }
        "first_layer_level" | "level_jump" => {
            let layers = chunk_positions(&spec, "layer");
            if layers.is_empty() {
                return None;
            }
            let pos = if name == "first_layer_level" { layers[0] } else { *rng.pick(&layers) };
            if let ChunkSpec::Layer { l, .. } = &mut spec.frames[pos.0].chunks[pos.1].spec {
                let add = *rng.pick(&[1u16, 2, 5, 100, 65535, 32768]);
                l.level = if name == "first_layer_level" { add } else { l.level.saturating_add(add.max(2)) };
                label = format!("layer chunk #{} gets child level {}", pos.1, l.level);
            }
        }
        "nested_groups" => {
            // a chain of `deep_groups` nested groups with one leaf, in a fresh tiny sprite
            let n = deep_groups.max(2);
            let mut sp = Sprite::blank(2, 2, Fmt::Rgba, 1);
            for i in 0..n {
                let mut l = LayerM::image("");
                l.level = i.min(65535) as u16;
                if i + 1 < n {
                    l.kind = LayerKind::Group;
                }
                sp.layers.push(l);
            }
            sp.cels.insert((0, (n - 1) as u16), CelM { x: 0, y: 0, opacity: 255, content: CelContentM::Image { w: 1, h: 1, pixels: vec![9, 9, 9, 255] }, ud: None });
            let mut r = Rng::new(1);
            spec = crate::program::compile(&sp, &mut r, &Variation::none());
            label = format!("chain of {} nested groups with one leaf cel", n);
        }
        "tilemap_cel_on_image_layer" | "image_cel_on_tilemap_layer" | "cel_on_group_layer" => {
            let layers = chunk_positions(&spec, "layer");
            let kind_of = |spec: &FileSpec, i: usize| match &spec.frames[layers[i].0].chunks[layers[i].1].spec {
                ChunkSpec::Layer { l, .. } => l.kind,
                _ => unreachable!(),
            };
            let want = |k: LayerKind| -> bool {
                match name {
                    "tilemap_cel_on_image_layer" => k == LayerKind::Image,
                    "image_cel_on_tilemap_layer" => matches!(k, LayerKind::Tilemap(_)),
                    _ => k == LayerKind::Group,
                }
            };
            let cands: Vec<usize> = (0..layers.len()).filter(|i| want(kind_of(&spec, *i))).collect();
            if cands.is_empty() {
                return None;
            }
            let li = *rng.pick(&cands) as u16;
            // a frame where the layer has no cel
            spec.frames.push(FrameSpec::new(10));
            spec.header.frames += 1;
            let nfx = spec.frames.len() - 1;
            // (also the degenerate tile grids 0x0, 0x3, 3x0: "nothing to check" must not mean "no check")
            let (tw, th, tiles): (u16, u16, Vec<u32>) = match rng.below(4) {
                0 => (0, 0, vec![]),
                1 => (0, 3, vec![]),
                2 => (3, 0, vec![]),
                _ => (2, 2, vec![0, 1, 0, 1]),
            };
            let chunk = if name == "tilemap_cel_on_image_layer" || (name == "cel_on_group_layer" && rng.chance(1, 3)) {
                ChunkSpec::Cel { layer: li, c: CelM { x: 0, y: 0, opacity: 255, content: CelContentM::Tilemap { w: tw, h: th, tiles, masks: [0x1fff_ffff, 0x2000_0000, 0x4000_0000, 0x8000_0000] }, ud: None }, storage: Storage::Zlib(6), reserved: [0; 7], cel_type_override: None }
            } else {
                raw_cel(li, fmt, 2, 2)
            };
            spec.frames[nfx].chunks.push(chunk.into());
            label = format!("{} (layer {}, new frame {})", name, li, nfx);
        }
        "palette_last_lt_first" | "palette_range_overflow" | "palette_count_huge" => {
            // insert / replace a new-format palette chunk with a lying range (patched after encoding)
            let mut sp2 = Sprite::blank(1, 1, Fmt::Rgba, 1);
            sp2.layers.push(LayerM::image("l"));
            let mut pal = std::collections::BTreeMap::new();
            for i in 0..4u32 {
                pal.insert(i, PalEntryM { rgba: [i as u8, 2, 3, 255], name: None });
            }
            sp2.palette = Some(pal);
            let mut r = Rng::new(2);
            let s2 = crate::program::compile(&sp2, &mut r, &Variation::none());
            let (mut b, map) = encode(&s2);
            let first = map.fields.iter().find(|f| f.name.ends_with("palette.first"))?;
            let last = map.fields.iter().find(|f| f.name.ends_with("palette.last"))?;
            match name {
                "palette_last_lt_first" => {
                    write_field(&mut b, first.off, 4, 5);
                    write_field(&mut b, last.off, 4, 2);
                }
                "palette_range_overflow" => {
                    write_field(&mut b, first.off, 4, 0);
                    write_field(&mut b, last.off, 4, 0xffff_ffff);
                }
                _ => {
                    write_field(&mut b, first.off, 4, *rng.pick(&[0u64, 100, 0xfff0_0000]));
                    let f = read_field(&b, first.off, 4);
                    write_field(&mut b, last.off, 4, (f + *rng.pick(&[1_000_000u64, 0x0fff_ffff, 70000])).min(0xffff_ffff));
                    if rng.chance(1, 2) {
                        // the chunk's own "total entries" field agrees with the lying range (three fields cooperate)
                        if let Some(total) = map.fields.iter().find(|f| f.name.ends_with("palette.total")) {
                            let l = read_field(&b, last.off, 4);
                            write_field(&mut b, total.off, 4, (l - f + 1).min(0xffff_ffff));
                        }
                    }
                }
            }
            return Some(Input { operator: format!("model:{}", name), label: format!("palette chunk first={} last={} with 4 entries", read_field(&b, first.off, 4), read_field(&b, last.off, 4)), bytes: b });
        }
        "frame_bytes_lie" => {
            let fi = rng.usize_below(nf);
            let (_, map) = encode(&spec);
            let real = (map.frames[fi].2 - map.frames[fi].1) as u32;
            let v = *rng.pick(&[real.wrapping_sub(1), real + 1, 16, 15, 0, 0xffff_ffff, real.saturating_sub(6), real * 2]);
            spec.frames[fi].bytes_override = Some(v);
            label = format!("frame {} declares {} bytes (real {})", fi, v, real);
        }
        "deflate_bomb" => {
            // highly compressible payload at ~1000:1; well-formed, must load (and stay inside the memory bound)
            if nl == 0 {
                return None;
            }
            let layers = chunk_positions(&spec, "layer");
            let img_layers: Vec<usize> = (0..layers.len())
                .filter(|i| matches!(&spec.frames[layers[*i].0].chunks[layers[*i].1].spec, ChunkSpec::Layer { l, .. } if l.kind == LayerKind::Image))
                .collect();
            if img_layers.is_empty() || fmt == Fmt::Indexed {
                return None;
            }
            let li = *rng.pick(&img_layers) as u16;
            spec.frames.push(FrameSpec::new(10));
            spec.header.frames += 1;
            let nfx = spec.frames.len() - 1;
            let (w, h) = *rng.pick(&[(4096u16, 256u16), (2048, 2048), (65535, 16)]);
            spec.frames[nfx].chunks.push(ChunkSpec::Cel { layer: li, c: CelM { x: 0, y: 0, opacity: 255, content: CelContentM::Image { w, h, pixels: vec![0; w as usize * h as usize * bpp] }, ud: None }, storage: Storage::Zlib(9), reserved: [0; 7], cel_type_override: None }.into());
            label = format!("deflate bomb: {}x{} zero cel ({} bytes inflated)", w, h, w as usize * h as usize * bpp);
        }
        "dangling_user_data" => {
            spec.frames[0].chunks.insert(0, ChunkSpec::UserData(UserDataM { text: Some("dangling".into()), color: None }).into());
            label = "user data as first chunk".into();
        }
        "dup_cel" => {
            let all = cel_positions(&spec, &|_| true);
            if all.is_empty() {
                return None;
            }
            let pos = *rng.pick(&all);
            let c = spec.frames[pos.0].chunks[pos.1].clone();
            spec.frames[pos.0].chunks.push(c);
            label = format!("cel chunk of frame {} duplicated", pos.0);
        }
        "dup_tileset" => {
            if tilesets.is_empty() {
                return None;
            }
            let pos = *rng.pick(&tilesets);
            let mut c = spec.frames[pos.0].chunks[pos.1].clone();
            if let ChunkSpec::Tileset { t, .. } = &mut c.spec {
                // same id, different geometry: the later chunk replaces the earlier one
                t.count = 1;
                t.pixels.truncate(t.tw as usize * t.th as usize * bpp);
            }
            spec.frames[pos.0].chunks.push(c);
            label = "tileset chunk duplicated with count 1".into();
        }
        "missing_tileset" => {
            let mut l = LayerM::image("tm");
            l.kind = LayerKind::Tilemap(*rng.pick(&[77u32, 0xffff_ffff, 1000]));
            add_layer(&mut spec, l);
            label = "tilemap layer referencing an undefined tileset".into();
        }
        "too_many_tag_records" => {
            let tags = chunk_positions(&spec, "tags");
            let pos = if let Some(p) = tags.first() {
                *p
            } else {
                spec.frames[0].chunks.push(ChunkSpec::Tags { tags: vec![TagM { from: 0, to: 0, dir: 0, repeat: 0, color: 0, name: "t".into(), ud: None }], reserved: [0; 8], tag_reserved: [0; 6] }.into());
                (0, spec.frames[0].chunks.len() - 1)
            };
            let n = match &spec.frames[pos.0].chunks[pos.1].spec {
                ChunkSpec::Tags { tags, .. } => tags.len(),
                _ => 0,
            };
            // remove records already following, then add n+1 records
            let mut at = pos.1 + 1;
            while at < spec.frames[pos.0].chunks.len() && matches!(spec.frames[pos.0].chunks[at].spec, ChunkSpec::UserData(_)) {
                spec.frames[pos.0].chunks.remove(at);
            }
            for _ in 0..=n {
                spec.frames[pos.0].chunks.insert(at, ChunkSpec::UserData(UserDataM { text: Some("x".into()), color: None }).into());
                at += 1;
            }
            label = format!("{} user-data records after a tags({}) chunk", n + 1, n);
        }
        "transparent_index_without_entry" => {
            // indexed sprite whose transparent index has no palette entry although pixels use it - on a background
            // layer (where that index is an ordinary colour), on a normal layer, or on both
            let t = *rng.pick(&[0u8, 5, 200]);
            let mut sp = Sprite::blank(3, 3, Fmt::Indexed, 1);
            sp.transparent_index = t;
            let mut pal = std::collections::BTreeMap::new();
            for i in (if t == 0 { 1u32 } else { 0 })..4 {
                pal.insert(i, PalEntryM { rgba: [i as u8 * 60, 9, 9, 255], name: None });
            }
            sp.palette = Some(pal);
            let mut bg = LayerM::image("bg");
            bg.flags |= LF_BACKGROUND;
            sp.layers.push(bg);
            sp.layers.push(LayerM::image("top"));
            let which = rng.below(3);
            for l in 0..2u16 {
                let uses_t = which == 2 || which == l as u64;
                let px = if uses_t { vec![1, t, 2, 3] } else { vec![1, 2, 3, 1] };
                sp.cels.insert((0, l), CelM { x: 0, y: 0, opacity: 255, content: CelContentM::Image { w: 2, h: 2, pixels: px }, ud: None });
            }
            let mut r = Rng::new(5);
            let mut v = Variation::none();
            v.default_storage = if rng.chance(1, 2) { Storage::Raw } else { Storage::Zlib(6) };
            spec = crate::program::compile(&sp, &mut r, &v);
            label = format!("indexed sprite: transparent index {} has no palette entry, used by pixels on {}", t, ["the background layer", "the normal layer", "both layers"][which as usize]);
        }
        "big_honest_cel" => {
            // well-formed and honest: one flat-colour cel that really inflates to 100 MiB (a ~100 KB file). It must load
            // within the bound - and whatever it teaches the process must not loosen the treatment of the hostile
            // inputs that the same process loads afterwards
            let side = 5120u16;
            let mut sp = Sprite::blank(8, 8, Fmt::Rgba, 1);
            sp.layers.push(LayerM::image("big"));
            sp.cels.insert((0, 0), CelM { x: 0, y: 0, opacity: 255, content: CelContentM::Image { w: side, h: side, pixels: [40u8, 90, 200, 255].iter().cycle().take(side as usize * side as usize * 4).cloned().collect() }, ud: None });
            let mut r = Rng::new(5);
            let mut v = Variation::none();
            v.default_storage = Storage::Zlib(6);
            spec = crate::program::compile(&sp, &mut r, &v);
            label = format!("honest {}x{} RGBA cel of one colour (100 MiB of pixels)", side, side);
        }
        "many_links_to_big_tilemap" => {
            // well-formed: one large, highly compressible tilemap cel and dozens of frames linked to it
            let side = *rng.pick(&[1024u16, 2048]);
            let nlinks = *rng.pick(&[40usize, 120]);
            let mut sp = Sprite::blank(4, 4, Fmt::Rgba, nlinks + 1);
            sp.tilesets.push(TilesetM { id: 0, flags: TS_EMBED | TS_ZERO_EMPTY, count: 2, tw: 1, th: 1, base_index: 1, name: "t".into(), ext: None, pixels: vec![0, 0, 0, 0, 9, 9, 9, 255] });
            let mut l = LayerM::image("tm");
            l.kind = LayerKind::Tilemap(0);
            sp.layers.push(l);
            sp.cels.insert((0, 0), CelM { x: 0, y: 0, opacity: 255, content: CelContentM::Tilemap { w: side, h: side, tiles: vec![1u32; side as usize * side as usize], masks: [0x1fff_ffff, 0x2000_0000, 0x4000_0000, 0x8000_0000] }, ud: None });
            for f in 1..=nlinks {
                sp.cels.insert((f as u16, 0), CelM { x: 0, y: 0, opacity: 255, content: CelContentM::Link(0), ud: None });
            }
            let mut r = Rng::new(5);
            let mut v = Variation::none();
            v.default_storage = Storage::Zlib(6);
            spec = crate::program::compile(&sp, &mut r, &v);
            label = format!("{}x{}-tile tilemap cel (all one tile) and {} frames linked to it", side, side, nlinks);
        }
        "palette_colliding_keys" => {
            // well-formed: an indexed sprite whose palette arrives as thousands of one-entry chunks at indices that are
            // equal modulo a large power of two (index 1 last), and one large cel whose every pixel is index 1 -
            // a table keyed by the raw index degenerates into one long probe chain per pixel
            let n = *rng.pick(&[4000u32, 6000]);
            let side = 8192u16;
            let mut sp = Sprite::blank(4, 4, Fmt::Indexed, 1);
            sp.transparent_index = 0;
            let mut pal = std::collections::BTreeMap::new();
            pal.insert(0u32, PalEntryM { rgba: [0, 0, 0, 0], name: None });
            pal.insert(1u32, PalEntryM { rgba: [200, 10, 10, 255], name: None });
            sp.palette = Some(pal);
            sp.layers.push(LayerM::image("l"));
            sp.cels.insert((0, 0), CelM { x: 0, y: 0, opacity: 255, content: CelContentM::Image { w: side, h: side, pixels: vec![1u8; side as usize * side as usize] }, ud: None });
            let mut chunks: Vec<ChunkSpec> = vec![ChunkSpec::Palette { total: 2, first: 0, entries: vec![PalChunkEntry { flags_extra: 0, rgba: [0, 0, 0, 0], name: None }], reserved: [0; 8] }];
            for k in (0..n).rev() {
                let idx = 1 + k * (1 << 17);
                chunks.push(ChunkSpec::Palette { total: 2, first: idx, entries: vec![PalChunkEntry { flags_extra: 0, rgba: if k == 0 { [200, 10, 10, 255] } else { [k as u8, (k >> 8) as u8, 7, 255] }, name: None }], reserved: [0; 8] });
            }
            let mut r = Rng::new(5);
            let mut v = Variation::none();
            v.default_storage = Storage::Zlib(6);
            spec = crate::program::compile_with(&sp, &mut r, &v, &crate::program::PaletteProgram::Chunks(chunks));
            label = format!("palette of {} one-entry chunks at indices 1 + k * 2^17 (index 1 last) and a {}x{} cel of index 1", n + 1, side, side);
        }
        "palette_chunk_sequence" => {
            // well-formed: two to five palette chunks of one format whose index ranges overlap, straddle the end of
            // what came before, leave gaps, repeat or shrink - in the first frame or spread over later ones
            let nframes = rng.range(1, 3) as usize;
            let mut sp = Sprite::blank(2, 2, Fmt::Rgba, nframes);
            sp.layers.push(LayerM::image("l"));
            sp.cels.insert((0, 0), CelM { x: 0, y: 0, opacity: 255, content: CelContentM::Image { w: 1, h: 1, pixels: vec![1, 2, 3, 255] }, ud: None });
            let legacy = rng.chance(1, 4);
            let nchunks = rng.range(2, 5) as usize;
            let mut chunks: Vec<ChunkSpec> = Vec::new();
            let mut desc = Vec::new();
            let mut end = 0u32; // one past the highest index so far
            for k in 0..nchunks {
                let (first, len) = if k == 0 {
                    (*rng.pick(&[0u32, 0, 0, 3]), rng.range(1, 40) as u32)
                } else {
                    match rng.below(6) {
                        0 => { let f = rng.below(end.max(1) as u64) as u32; (f, end - f + rng.range(1, 20) as u32) }   // straddles the end
                        1 => { let f = rng.below(end.max(1) as u64) as u32; (f, rng.range(1, (end - f).max(1) as i64) as u32) } // inside
                        2 => (end, rng.range(1, 20) as u32),                                                          // appends
                        3 => (end + rng.range(1, 30) as u32, rng.range(1, 20) as u32),                                // gap
                        4 => (0, end + rng.range(0, 9) as u32),                                                       // everything again
                        _ => (rng.below(300) as u32, rng.range(1, 60) as u32),
                    }
                };
                let len = len.max(1).min(if legacy { 256u32.saturating_sub(first).max(1) } else { 400 });
                let first = if legacy { first.min(255) } else { first };
                end = end.max(first + len);
                desc.push(format!("{}..={}", first, first + len - 1));
                if legacy {
                    chunks.push(ChunkSpec::OldPalette { kind: if rng.chance(1, 2) { 4 } else { 0x11 }, packets: vec![(first as u8, (0..len).map(|i| [(i + k as u32 * 40) as u8 & 63, 9, 9]).collect())] });
                } else {
                    chunks.push(ChunkSpec::Palette { total: end, first, entries: (0..len).map(|i| PalChunkEntry { flags_extra: 0, rgba: [(first + i) as u8, k as u8, 9, 255], name: if rng.chance(1, 8) { Some(format!("c{}", k)) } else { None } }).collect(), reserved: [0; 8] });
                }
            }
            let mut r = Rng::new(5);
            let v = Variation::none();
            let head = chunks.len() - if nframes > 1 { rng.usize_below(chunks.len()) } else { 0 };
            let tail = chunks.split_off(head);
            spec = crate::program::compile_with(&sp, &mut r, &v, &crate::program::PaletteProgram::Chunks(chunks));
            for (j, c) in tail.into_iter().enumerate() {
                let f = 1 + j % (nframes - 1).max(1);
                spec.frames[f.min(nframes - 1)].chunks.push(c.into());
            }
            label = format!("{} {} palette chunks with index ranges {} over {} frame(s)", nchunks, if legacy { "legacy" } else { "new-format" }, desc.join(", "), nframes);
        }
        "palette_hundreds_of_thousands" => {
            // well-formed: one new-format palette chunk listing 300 000 colours (1.8 MB) in an RGBA sprite
            let n = *rng.pick(&[200_000u32, 300_000]);
            let mut sp = Sprite::blank(2, 2, Fmt::Rgba, 1);
            sp.layers.push(LayerM::image("l"));
            sp.cels.insert((0, 0), CelM { x: 0, y: 0, opacity: 255, content: CelContentM::Image { w: 1, h: 1, pixels: vec![1, 2, 3, 255] }, ud: None });
            let chunks = vec![ChunkSpec::Palette { total: n, first: 0, entries: (0..n).map(|i| PalChunkEntry { flags_extra: 0, rgba: [i as u8, (i >> 8) as u8, (i >> 16) as u8, 255], name: None }).collect(), reserved: [0; 8] }];
            let mut r = Rng::new(5);
            spec = crate::program::compile_with(&sp, &mut r, &Variation::none(), &crate::program::PaletteProgram::Chunks(chunks));
            label = format!("palette chunk listing {} colours", n);
        }
        "tilemap_huge_off_canvas" => {
            // well-formed: a 1x1 (or 2x3) canvas under a 256x256 map of 65535x4-pixel tiles - 1.7 x 10^10 map pixels, of
            // which one to six are on the canvas
            let wide = rng.chance(1, 2);
            let (cw, ch) = *rng.pick(&[(1u16, 1u16), (2, 3)]);
            let mut sp = Sprite::blank(cw, ch, Fmt::Rgba, 1);
            let (tw, th) = if wide { (65_535u16, 4u16) } else { (4, 65_535) };
            let mut pixels = vec![0u8; 65_535 * 4 * 4];
            // (flat colour except the tile's first pixels, so that the 2 MB of tile data compress to a few KB)
            pixels.extend((0..65_535u32 * 4).flat_map(|i| if i < 8 { [i as u8 * 30, 77, 9, 255] } else { [200, 10, 10, 255] }));
            sp.tilesets.push(TilesetM { id: 0, flags: TS_EMBED | TS_ZERO_EMPTY, count: 2, tw, th, base_index: 1, name: "t".into(), ext: None, pixels });
            let mut l = LayerM::image("tm");
            l.kind = LayerKind::Tilemap(0);
            sp.layers.push(l);
            let side = 256u16;
            let (x, y) = *rng.pick(&[(0i16, 0i16), (-32_768, -32_768), (0, -4), (-3, 0)]);
            let (x, y) = if wide { (x, y.max(-1020) / 4 * 4) } else { (x.max(-1020) / 4 * 4, y) };
            sp.cels.insert((0, 0), CelM { x, y, opacity: 255, content: CelContentM::Tilemap { w: side, h: side, tiles: vec![1u32; side as usize * side as usize], masks: [0x1fff_ffff, 0x2000_0000, 0x4000_0000, 0x8000_0000] }, ud: None });
            let mut r = Rng::new(5);
            let mut v = Variation::none();
            v.default_storage = Storage::Zlib(6);
            spec = crate::program::compile(&sp, &mut r, &v);
            label = format!("{}x{} canvas under a {}x{} map of {}x{} tiles at ({},{})", cw, ch, side, side, tw, th, x, y);
        }
        "tileset_million_tiny_tiles" => {
            // well-formed and honest: millions of 1x1 / 2x2 / 3x3 tiles (a few KB compressed). Whatever is kept per
            // TILE beyond its pixels is multiplied by millions
            let (side, count) = *rng.pick(&[(1u16, 5_000_000u32), (1, 3_000_000), (2, 2_000_000), (3, 1_000_000)]);
            let fmt = if rng.chance(2, 3) { Fmt::Indexed } else { Fmt::Rgba };
            let mut sp = Sprite::blank(2, 2, fmt, 1);
            if fmt == Fmt::Indexed {
                sp.transparent_index = 0;
                let mut pal = std::collections::BTreeMap::new();
                pal.insert(0u32, PalEntryM { rgba: [0, 0, 0, 0], name: None });
                pal.insert(1u32, PalEntryM { rgba: [9, 9, 9, 255], name: None });
                sp.palette = Some(pal);
            }
            let area = side as usize * side as usize;
            let mut pixels = vec![0u8; area * fmt.bpp()];
            let one: Vec<u8> = if fmt == Fmt::Indexed { vec![1] } else { vec![9, 9, 9, 255] };
            for _ in 0..(count as usize - 1) * area {
                pixels.extend_from_slice(&one);
            }
            sp.tilesets.push(TilesetM { id: 0, flags: TS_EMBED | TS_ZERO_EMPTY, count, tw: side, th: side, base_index: 1, name: "t".into(), ext: None, pixels });
            let mut l = LayerM::image("tm");
            l.kind = LayerKind::Tilemap(0);
            sp.layers.push(l);
            sp.cels.insert((0, 0), CelM { x: 0, y: 0, opacity: 255, content: CelContentM::Tilemap { w: 2, h: 1, tiles: vec![1, count - 1], masks: [0x1fff_ffff, 0x2000_0000, 0x4000_0000, 0x8000_0000] }, ud: None });
            let mut r = Rng::new(5);
            let mut v = Variation::none();
            v.default_storage = Storage::Zlib(6);
            spec = crate::program::compile(&sp, &mut r, &v);
            for fr in spec.frames.iter_mut() {
                for c in fr.chunks.iter_mut() {
                    if let ChunkSpec::Tileset { level, .. } = &mut c.spec {
                        *level = 6;
                    }
                }
            }
            label = format!("tileset of {} tiles of {}x{} {:?} pixels", count, side, side, fmt);
        }
        "tileset_strip_height_u32" => {
            // self-consistent: 65538 tiles of 1x65535 indexed pixels - all tiles stacked are 2^32 + 65534 pixel rows,
            // more than an image height can hold (4 GiB of pixel data, ~4 MB compressed; thorough tier only)
            let mut sp = Sprite::blank(1, 1, Fmt::Indexed, 1);
            sp.transparent_index = 0;
            let mut pal = std::collections::BTreeMap::new();
            pal.insert(0u32, PalEntryM { rgba: [0, 0, 0, 0], name: None });
            pal.insert(1u32, PalEntryM { rgba: [9, 9, 9, 255], name: None });
            sp.palette = Some(pal);
            sp.layers.push(LayerM::image("l"));
            let count = 65_538u32;
            sp.tilesets.push(TilesetM { id: 0, flags: TS_EMBED | TS_ZERO_EMPTY, count, tw: 1, th: 65_535, base_index: 1, name: "t".into(), ext: None, pixels: vec![0u8; count as usize * 65_535] });
            let mut r = Rng::new(5);
            let mut v = Variation::none();
            v.default_storage = Storage::Raw;
            spec = crate::program::compile(&sp, &mut r, &v);
            for fr in spec.frames.iter_mut() {
                for c in fr.chunks.iter_mut() {
                    if let ChunkSpec::Tileset { level, .. } = &mut c.spec {
                        *level = 6;
                    }
                }
            }
            label = format!("tileset of {} tiles of 1x65535 pixels (stacked height 2^32 + 65534)", count);
        }
        "tilemap_extent_i32" => {
            // well-formed: a stored tilemap whose pixel extent (tiles x tile size) reaches 2^31 along one axis
            // (65535-pixel tiles x 32770 tiles); nearly all of it lies off the 2x2 canvas
            let wide = rng.chance(1, 2);
            let mut sp = Sprite::blank(2, 2, Fmt::Rgba, 1);
            let (tw, th) = if wide { (65_535u16, 1u16) } else { (1, 65_535) };
            let mut pixels = vec![0u8; 65_535 * 4];
            pixels.extend((0..65_535u32).flat_map(|i| [i as u8, (i >> 8) as u8, 9, 255]));
            sp.tilesets.push(TilesetM { id: 0, flags: TS_EMBED | TS_ZERO_EMPTY, count: 2, tw, th, base_index: 1, name: "t".into(), ext: None, pixels });
            let mut l = LayerM::image("tm");
            l.kind = LayerKind::Tilemap(0);
            sp.layers.push(l);
            let n = *rng.pick(&[32_769u16, 32_770, 32_800]);
            let (mw, mh) = if wide { (n, 1u16) } else { (1, n) };
            let mut tiles = vec![0u32; n as usize];
            tiles[0] = 1;
            tiles[n as usize - 1] = 1;
            sp.cels.insert((0, 0), CelM { x: if wide { *rng.pick(&[0i16, 32_767, -3]) } else { 0 }, y: if wide { 0 } else { *rng.pick(&[0i16, 32_767, -3]) }, opacity: 255, content: CelContentM::Tilemap { w: mw, h: mh, tiles, masks: [0x1fff_ffff, 0x2000_0000, 0x4000_0000, 0x8000_0000] }, ud: None });
            let mut r = Rng::new(5);
            let mut v = Variation::none();
            v.default_storage = Storage::Zlib(6);
            spec = crate::program::compile(&sp, &mut r, &v);
            label = format!("tilemap of {}x{} tiles of {}x{} pixels (extent >= 2^31)", mw, mh, tw, th);
        }
        "declared_frames_tall_stack" => {
            // hundreds of layers, two real frames with a cel on the top layer (image, then linked / image / tilemap),
            // and a header that declares tens of thousands of frames: per-frame rows must not be sized by layer index
            let nl = *rng.pick(&[200usize, 600, 2000]);
            let declared = *rng.pick(&[65_535u16, 40_000]);
            let kind = rng.below(3);
            let mut sp = Sprite::blank(2, 2, Fmt::Rgba, 2);
            if kind == 2 {
                sp.tilesets.push(TilesetM { id: 0, flags: TS_EMBED | TS_ZERO_EMPTY, count: 2, tw: 1, th: 1, base_index: 1, name: String::new(), ext: None, pixels: vec![0, 0, 0, 0, 9, 9, 9, 255] });
            }
            for l in 0..nl {
                let mut ly = LayerM::image("");
                if kind == 2 && l == nl - 1 {
                    ly.kind = LayerKind::Tilemap(0);
                }
                sp.layers.push(ly);
            }
            let top = (nl - 1) as u16;
            let content = if kind == 2 { CelContentM::Tilemap { w: 1, h: 1, tiles: vec![1], masks: [0x1fff_ffff, 0x2000_0000, 0x4000_0000, 0x8000_0000] } } else { CelContentM::Image { w: 1, h: 1, pixels: vec![1, 2, 3, 255] } };
            sp.cels.insert((0, top), CelM { x: 0, y: 0, opacity: 255, content: content.clone(), ud: None });
            sp.cels.insert((1, top), CelM { x: 0, y: 0, opacity: 255, content: if kind == 0 { CelContentM::Link(0) } else { content }, ud: None });
            let mut r = Rng::new(4);
            let mut v = Variation::none();
            v.default_storage = Storage::Raw;
            spec = crate::program::compile(&sp, &mut r, &v);
            spec.header.frames = declared;
            label = format!("{} layers, 2 frames with a {} cel on the top layer, header declares {} frames", nl, ["linked", "image", "tilemap"][kind as usize], declared);
        }
        "cel_layer65535_many_frames" => {
            let n = 200usize;
            let mut sp = Sprite::blank(1, 1, Fmt::Rgba, n);
            sp.layers.push(LayerM::image("l"));
            let mut r = Rng::new(3);
            spec = crate::program::compile(&sp, &mut r, &Variation::none());
            for f in 0..n {
                let mut c = raw_cel(65535, Fmt::Rgba, 1, 1);
                if let ChunkSpec::Cel { storage, .. } = &mut c {
                    *storage = Storage::Raw;
                }
                spec.frames[f].chunks.push(c.into());
            }
            label = format!("{} frames each holding one 1x1 cel with layer index 65535", n);
        }
        "chunk_4gib" => {
            // frame declares ~4 GiB and contains one chunk declaring ~4 GiB; the file ends right after
            let (mut b, map) = encode(&spec);
            let fi = map.frames.len() - 1;
            let fstart = map.frames[fi].1;
            let last_chunk = map.chunks.iter().filter(|c| c.0 == fi).last();
            if let Some(c) = last_chunk {
                write_field(&mut b, fstart, 4, 0xffff_ffff);
                write_field(&mut b, c.3, 4, *rng.pick(&[0xffff_fff0u64, 0x8000_0000, 0x4000_0000]));
                return Some(Input { operator: format!("model:{}", name), label: format!("last chunk of frame {} declares {} bytes inside a frame declaring 4 GiB", fi, read_field(&b, c.3, 4)), bytes: b });
            }
            return None;
        }
        "sparse_cel_table" => {
            // WELL-FORMED: n layers x n frames, one 1x1 cel per frame on the top layer
            // (frame-count / layer-count driven tables). n comes in through `deep_groups`.
            let n = (deep_groups / 4).clamp(50, 8000);
            let mut sp = Sprite::blank(1, 1, Fmt::Rgba, n);
            for i in 0..n {
                let mut l = LayerM::image("");
                l.opacity = (i % 256) as u8;
                sp.layers.push(l);
            }
            for f in 0..n {
                sp.cels.insert((f as u16, (n - 1) as u16), CelM { x: 0, y: 0, opacity: 255, content: CelContentM::Image { w: 1, h: 1, pixels: vec![1, 2, 3, 4] }, ud: None });
            }
            let mut v = Variation::none();
            v.default_storage = Storage::Raw;
            let mut r = Rng::new(4);
            spec = crate::program::compile(&sp, &mut r, &v);
            label = format!("well-formed sprite of {} layers x {} frames, one 1x1 cel per frame on the top layer", n, n);
        }
        "link_to_image_cel_on_tilemap_layer" => {
            // an image cel on a tilemap layer is accepted by the loader; a linked cel pointing at it
            // then makes "tilemap layer + linked cel" resolve to something that is not a tilemap
            let layers = chunk_positions(&spec, "layer");
            let cands: Vec<usize> = (0..layers.len())
                .filter(|i| matches!(&spec.frames[layers[*i].0].chunks[layers[*i].1].spec, ChunkSpec::Layer { l, .. } if matches!(l.kind, LayerKind::Tilemap(_))))
                .collect();
            if cands.is_empty() {
                return None;
            }
            let li = *rng.pick(&cands) as u16;
            spec.frames.push(FrameSpec::new(10));
            spec.frames.push(FrameSpec::new(10));
            spec.header.frames += 2;
            let a = spec.frames.len() - 2;
            spec.frames[a].chunks.push(raw_cel(li, fmt, 2, 2).into());
            spec.frames[a + 1].chunks.push(ChunkSpec::Cel { layer: li, c: CelM { x: 0, y: 0, opacity: 255, content: CelContentM::Link(a as u16), ud: None }, storage: Storage::Raw, reserved: [0; 7], cel_type_override: None }.into());
            label = format!("tilemap layer {}: image cel in frame {}, linked cel in frame {} pointing at it", li, a, a + 1);
        }
        "tags_in_later_frame" => {
            spec.frames.push(FrameSpec::new(10));
            spec.header.frames += 1;
            let a = spec.frames.len() - 1;
            spec.frames[a].chunks.push(ChunkSpec::Tags { tags: vec![TagM { from: 0, to: 0, dir: 0, repeat: 0, color: 0, name: "late".into(), ud: None }], reserved: [0; 8], tag_reserved: [0; 6] }.into());
            spec.frames[a].chunks.push(ChunkSpec::UserData(UserDataM { text: Some("after late tags".into()), color: None }).into());
            label = format!("tags chunk (and a user-data record) in frame {}", a);
        }
        "sixbit_component_out_of_range" => {
            spec.frames[0].chunks.insert(0, ChunkSpec::OldPalette { kind: 0x11, packets: vec![(0, vec![[1, 2, 3], [64 + rng.below(192) as u8, 0, 63]])] }.into());
            label = "legacy 0x0011 palette chunk with a component >= 64 as first chunk".into();
        }
        "palette_shifted_high" => {
            // indexed sprite whose (complete, tiny) palette sits at huge indices, plus a cel without pixels
            let n = *rng.pick(&[1_000_000u32, 300_000_000, 0xffff_fff0]);
            let mut sp = Sprite::blank(1, 1, Fmt::Indexed, 1);
            sp.layers.push(LayerM::image("l"));
            let mut pal = std::collections::BTreeMap::new();
            for i in 0..3u32 {
                pal.insert(n.wrapping_add(i), PalEntryM { rgba: [i as u8, 2, 3, 255], name: None });
            }
            sp.palette = Some(pal);
            sp.cels.insert((0, 0), CelM { x: 0, y: 0, opacity: 255, content: CelContentM::Image { w: 0, h: 0, pixels: vec![] }, ud: None });
            let mut r = Rng::new(5);
            let mut v = Variation::none();
            v.default_storage = if rng.chance(1, 2) { Storage::Raw } else { Storage::Zlib(6) };
            spec = crate::program::compile(&sp, &mut r, &v);
            label = format!("indexed sprite with palette entries {}..{} and a 0x0 cel", n, n.wrapping_add(2));
        }
        "many_wide_tags" => {
            // well-formed: hundreds of tags that each span the whole u16 frame range
            let k = *rng.pick(&[200usize, 600, 2000]);
            let tags: Vec<TagM> = (0..k).map(|i| TagM { from: 0, to: 65535, dir: (i % 3) as u8, repeat: 0, color: 0, name: String::new(), ud: None }).collect();
            // replace an existing tags chunk or add one to frame 0
            let pos = chunk_positions(&spec, "tags");
            if let Some(p) = pos.first() {
                // drop the records that followed the old chunk
                let mut at = p.1 + 1;
                while at < spec.frames[p.0].chunks.len() && matches!(spec.frames[p.0].chunks[at].spec, ChunkSpec::UserData(_)) {
                    spec.frames[p.0].chunks.remove(at);
                }
                let _ = &mut at;
                spec.frames[p.0].chunks[p.1] = ChunkSpec::Tags { tags, reserved: [0; 8], tag_reserved: [0; 6] }.into();
            } else {
                spec.frames[0].chunks.push(ChunkSpec::Tags { tags, reserved: [0; 8], tag_reserved: [0; 6] }.into());
            }
            label = format!("{} tags each spanning frames 0..=65535", k);
        }
        "late_tile_id_oob" | "late_cel_payload_short" | "late_link_to_missing" | "late_tileset_mismatch" => {
            // the inconsistency sits far from the start: frame index >= 256, the last of several tilesets
            // (ids 0, 300, 70000), the last layer - where "validate only the first N" slips would miss it
            let nf = 260usize;
            let mut sp = Sprite::blank(4, 4, Fmt::Rgba, nf);
            for (k, id) in [0u32, 300, 70_000].iter().enumerate() {
                sp.tilesets.push(TilesetM { id: *id, flags: TS_EMBED | TS_ZERO_EMPTY, count: 4, tw: 2, th: 2, base_index: 1, name: format!("ts{}", k), ext: None, pixels: { let mut p = vec![0u8; 16]; p.extend(rng.bytes(48)); p } });
            }
            sp.layers.push(LayerM::image("img"));
            for id in [0u32, 300, 70_000] {
                let mut l = LayerM::image("tm");
                l.kind = LayerKind::Tilemap(id);
                sp.layers.push(l);
            }
            let last_layer = (sp.layers.len() - 1) as u16;
            for f in [0u16, 255, 256, 259] {
                sp.cels.insert((f, 0), CelM { x: 0, y: 0, opacity: 255, content: CelContentM::Image { w: 2, h: 2, pixels: rng.bytes(16) }, ud: None });
                sp.cels.insert((f, last_layer), CelM { x: 0, y: 0, opacity: 255, content: CelContentM::Tilemap { w: 2, h: 2, tiles: vec![1, 2, 3, 0], masks: [0x1fff_ffff, 0x2000_0000, 0x4000_0000, 0x8000_0000] }, ud: None });
            }
            match name {
                "late_tile_id_oob" => {
                    if let Some(CelM { content: CelContentM::Tilemap { tiles, .. }, .. }) = sp.cels.get_mut(&(259, last_layer)) {
                        tiles[3] = 4;
                    }
                    label = "tile id == tile count in the tilemap cel of frame 259 on the last layer (tileset id 70000)".into();
                }
                "late_cel_payload_short" => {
                    if let Some(CelM { content: CelContentM::Image { pixels, .. }, .. }) = sp.cels.get_mut(&(256, 0)) {
                        pixels.truncate(12);
                    }
                    label = "compressed cel of frame 256 carries 3 of 4 pixels".into();
                }
                "late_link_to_missing" => {
                    sp.cels.insert((258, 0), CelM { x: 0, y: 0, opacity: 255, content: CelContentM::Link(257), ud: None });
                    label = "linked cel in frame 258 pointing at frame 257, which has no cel".into();
                }
                _ => {
                    sp.tilesets[2].count = 5;
                    label = "the third tileset (id 70000) declares 5 tiles but carries 4".into();
                }
            }
            let mut r = Rng::new(6);
            let mut v = Variation::none();
            v.default_storage = Storage::Zlib(6);
            spec = crate::program::compile(&sp, &mut r, &v);
        }
        "zlib_garbage" => {
            // corrupt the compressed stream of a cel / tileset after encoding
            let (mut b, map) = encode(&spec);
            let payloads: Vec<_> = map.fields.iter().filter(|f| f.kind == Kind::Payload && (f.name.ends_with("pixels") || f.name.ends_with("tiles")) && f.width > 8).collect();
            if payloads.is_empty() {
                return None;
            }
            let f = payloads[rng.usize_below(payloads.len())];
            match rng.below(4) {
                0 => {
                    let r = rng.bytes(f.width);
                    b[f.off..f.off + f.width].copy_from_slice(&r);
                    label = format!("{} replaced by random bytes", f.name);
                }
                1 => {
                    b[f.off + f.width - 1] ^= 0xff;
                    label = format!("{} checksum byte flipped", f.name);
                }
                2 => {
                    let p = f.off + 2 + rng.usize_below(f.width - 6);
                    b[p] ^= 1 << rng.below(8);
                    label = format!("{} one bit flipped inside the stream", f.name);
                }
                _ => {
                    b[f.off] = 0x78;
                    b[f.off + 1] = 0x9c;
                    for k in 2..f.width.min(12) {
                        b[f.off + k] = 0xff;
                    }
                    label = format!("{} header kept, body 0xff", f.name);
                }
            }
            return Some(Input { operator: format!("model:{}", name), label, bytes: b });
        }
        "zero_frames" => {
            spec.header.frames = 0;
            spec.frames.clear();
            label = "header declares 0 frames, file ends after the header".into();
        }
        "zero_canvas" => {
            match rng.below(3) {
                0 => spec.header.width = 0,
                1 => spec.header.height = 0,
                _ => {
                    spec.header.width = 0;
                    spec.header.height = 0
                }
            }
            label = format!("canvas {}x{}", spec.header.width, spec.header.height);
        }
        "huge_canvas" => {
            spec.header.width = *rng.pick(&[65535u16, 32768, 4096]);
            spec.header.height = *rng.pick(&[65535u16, 32768, 2048]);
            label = format!("canvas {}x{}", spec.header.width, spec.header.height);
        }
        "ext_files_count_huge" | "slice_keys_count_huge" | "tags_count_huge" => {
            // a chunk whose entry count is inflated while the chunk carries one entry
            let chunk = match name {
                "ext_files_count_huge" => ChunkSpec::ExtFiles { files: vec![ExtFileM { id: 1, name: "x".into() }], reserved: [0; 8] },
                "slice_keys_count_huge" => ChunkSpec::Slice { s: SliceM { name: "s".into(), flags: 0, keys: vec![SliceKeyM { frame: 0, x: 0, y: 0, w: 1, h: 1, center: None, pivot: None }], ud: None }, reserved: 0 },
                _ => ChunkSpec::Tags { tags: vec![TagM { from: 0, to: 0, dir: 0, repeat: 0, color: 0, name: "t".into(), ud: None }], reserved: [0; 8], tag_reserved: [0; 6] },
            };
            spec.frames[0].chunks.push(chunk.into());
            let (mut b, map) = encode(&spec);
            let suffix = match name {
                "ext_files_count_huge" => "extfiles.count",
                "slice_keys_count_huge" => "slice.keys",
                _ => "tags.count",
            };
            let f = map.fields.iter().filter(|f| f.name.ends_with(suffix)).last()?;
            let v = if f.width == 2 { 0xffffu64 } else { *rng.pick(&[0xffff_ffffu64, 0x7fff_ffff, 0x1000_0000, 0x0100_0000]) };
            write_field(&mut b, f.off, f.width, v);
            return Some(Input { operator: format!("model:{}", name), label: format!("{} = {} with one entry present", f.name, v), bytes: b });
        }
        "random_chunk_type" => {
            let fi = rng.usize_below(nf.max(1));
            if spec.frames.is_empty() {
                return None;
            }
            let ty = *rng.pick(&[0x2021u16, 0x2024, 0x0000, 0xffff, 0x2003, 0x0005]);
            let n = rng.range(0, 40) as usize;
            let data = rng.bytes(n);
            let p = rng.usize_below(spec.frames[fi].chunks.len() + 1);
            spec.frames[fi].chunks.insert(p, ChunkSpec::Raw { ty, data }.into());
            label = format!("unknown chunk type {:#06x} in frame {}", ty, fi);
        }
        _ => return None,
    }
    let (bytes, _) = encode(&spec);
    Some(Input { operator: format!("model:{}", name), label: format!("{}: {}", base.name, label), bytes })
}
