pub fn x(){}
