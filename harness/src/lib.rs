//! asemon: runtime monitors for alpine-alpaca/asefile (see /verif/DESIGN.md).
pub mod blendref;
pub mod blendscan;
pub mod corpus;
pub mod decode;
pub mod common;
pub mod encode;
pub mod expect;
pub mod gen;
pub mod model;
pub mod observe;
pub mod program;
pub mod readers;
pub mod refrender;
pub mod rng;
pub mod val;
pub mod util;
pub mod checks;
