//! Counting global allocator (C12): live bytes, peak since arming, largest
//! single request and request count. Thread-safe (atomics only), no
//! allocation inside the allocator; requests above `alarm` are announced with
//! a raw write(2) on fd `ALARM_FD` before being passed on, so that a process
//! that then dies from allocation failure can still be attributed.

use std::alloc::{GlobalAlloc, Layout, System};
use std::sync::atomic::{AtomicBool, AtomicI64, AtomicU64, AtomicI32, Ordering};

pub struct CountingAlloc;

static ARMED: AtomicBool = AtomicBool::new(false);
static LIVE: AtomicI64 = AtomicI64::new(0);
static PEAK: AtomicI64 = AtomicI64::new(0);
static LARGEST: AtomicU64 = AtomicU64::new(0);
static REQUESTS: AtomicU64 = AtomicU64::new(0);
static ALARM: AtomicU64 = AtomicU64::new(u64::MAX);
static ALARM_FD: AtomicI32 = AtomicI32::new(-1);
static ALARMS: AtomicU64 = AtomicU64::new(0);

fn announce(size: usize) {
    let fd = ALARM_FD.load(Ordering::Relaxed);
    if fd < 0 {
        return;
    }
    // "A <size>\n" without allocating
    let mut buf = [0u8; 32];
    buf[0] = b'A';
    buf[1] = b' ';
    let mut digits = [0u8; 20];
    let mut n = size as u64;
    let mut k = 0;
    loop {
        digits[k] = b'0' + (n % 10) as u8;
        n /= 10;
        k += 1;
        if n == 0 {
            break;
        }
    }
    let mut p = 2;
    while k > 0 {
        k -= 1;
        buf[p] = digits[k];
        p += 1;
    }
    buf[p] = b'\n';
    p += 1;
    unsafe {
        libc::write(fd, buf.as_ptr() as *const libc::c_void, p);
    }
}

#[inline]
fn on_alloc(size: usize) {
    if !ARMED.load(Ordering::Relaxed) {
        return;
    }
    REQUESTS.fetch_add(1, Ordering::Relaxed);
    LARGEST.fetch_max(size as u64, Ordering::Relaxed);
    if size as u64 > ALARM.load(Ordering::Relaxed) {
        ALARMS.fetch_add(1, Ordering::Relaxed);
        announce(size);
    }
    let live = LIVE.fetch_add(size as i64, Ordering::Relaxed) + size as i64;
    PEAK.fetch_max(live, Ordering::Relaxed);
}

#[inline]
fn on_dealloc(size: usize) {
    if !ARMED.load(Ordering::Relaxed) {
        return;
    }
    LIVE.fetch_sub(size as i64, Ordering::Relaxed);
}

unsafe impl GlobalAlloc for CountingAlloc {
    unsafe fn alloc(&self, layout: Layout) -> *mut u8 {
        on_alloc(layout.size());
        System.alloc(layout)
    }
    unsafe fn alloc_zeroed(&self, layout: Layout) -> *mut u8 {
        on_alloc(layout.size());
        System.alloc_zeroed(layout)
    }
    unsafe fn dealloc(&self, ptr: *mut u8, layout: Layout) {
        on_dealloc(layout.size());
        System.dealloc(ptr, layout)
    }
    unsafe fn realloc(&self, ptr: *mut u8, layout: Layout, new_size: usize) -> *mut u8 {
        if ARMED.load(Ordering::Relaxed) {
            // account as: new block requested while the old one is still live
            REQUESTS.fetch_add(1, Ordering::Relaxed);
            LARGEST.fetch_max(new_size as u64, Ordering::Relaxed);
            if new_size as u64 > ALARM.load(Ordering::Relaxed) {
                ALARMS.fetch_add(1, Ordering::Relaxed);
                announce(new_size);
            }
            let live = LIVE.fetch_add(new_size as i64, Ordering::Relaxed) + new_size as i64;
            PEAK.fetch_max(live, Ordering::Relaxed);
            let p = System.realloc(ptr, layout, new_size);
            if !p.is_null() {
                LIVE.fetch_sub(layout.size() as i64, Ordering::Relaxed);
            } else {
                LIVE.fetch_sub(new_size as i64, Ordering::Relaxed);
            }
            p
        } else {
            System.realloc(ptr, layout, new_size)
        }
    }
}

#[derive(Clone, Copy, Debug, Default)]
pub struct Stats {
    pub peak: u64,
    pub largest: u64,
    pub requests: u64,
    pub alarms: u64,
    pub live_at_end: i64,
}

/// Start measuring: baseline = 0 live bytes. `alarm`: single-request size above which a raw line is written to `fd`.
pub fn arm(alarm: u64, fd: i32) {
    LIVE.store(0, Ordering::SeqCst);
    PEAK.store(0, Ordering::SeqCst);
    LARGEST.store(0, Ordering::SeqCst);
    REQUESTS.store(0, Ordering::SeqCst);
    ALARMS.store(0, Ordering::SeqCst);
    ALARM.store(alarm, Ordering::SeqCst);
    ALARM_FD.store(fd, Ordering::SeqCst);
    ARMED.store(true, Ordering::SeqCst);
}

pub fn disarm() -> Stats {
    ARMED.store(false, Ordering::SeqCst);
    Stats { peak: PEAK.load(Ordering::SeqCst).max(0) as u64, largest: LARGEST.load(Ordering::SeqCst), requests: REQUESTS.load(Ordering::SeqCst), alarms: ALARMS.load(Ordering::SeqCst), live_at_end: LIVE.load(Ordering::SeqCst) }
}
