//! Shared engine of C03 (oracle comparison) and C17 (mode-independent laws):
//! enumerations of (mode, backdrop, source, layer opacity, cel opacity) pushed
//! through the PUBLIC rendering API as multi-frame two-layer sprites.

use crate::blendref::{self, pack, unpack, MODE_NAMES};
use crate::common::*;
use crate::encode::encode;
use crate::model::*;
use crate::program::{compile, Variation};
use crate::rng::Rng;
use crate::util::*;
use serde_json::json;

pub struct Plane {
    pub family: &'static str,
    pub label: String,
    pub back: Vec<u32>,
    pub src: Vec<u32>,
    pub lo: u8,
    pub co: u8,
    pub w: u16,
    pub h: u16,
}

fn px_bytes(v: &[u32]) -> Vec<u8> {
    let mut out = Vec::with_capacity(v.len() * 4);
    for p in v {
        out.extend_from_slice(&p.to_le_bytes());
    }
    out
}

/// Builds the sprite: layer 0 carries the backdrop (Normal, 255); layer 1+k
/// has blend mode modes[k] and layer opacity `lo`; frame k shows the backdrop
/// (linked to frame 0) and the source cel (cel opacity `co`) on layer 1+k.
/// [I] data of an indexed plane: a 256-entry palette with every kind of alpha, backdrop indices (never the transparent
/// index 0) and source indices (any, incl. the transparent index: the source layers carry the BACKGROUND flag, where
/// every index shows its palette colour)
pub fn indexed_plane_data(seed: u64, p: u64) -> (Vec<[u8; 4]>, Vec<u8>, Vec<u8>) {
    let mut rng = Rng::derive(seed, "I", p);
    let pal: Vec<[u8; 4]> = (0..256).map(|i| [rng.u8(), rng.u8(), rng.u8(), match i % 5 { 0 => 255, 1 => 0, 2 => 128, 3 => rng.u8(), _ => 255 }]).collect();
    let n = 32 * 32;
    let back: Vec<u8> = (0..n).map(|_| rng.range(1, 255) as u8).collect();
    let src: Vec<u8> = (0..n).map(|_| rng.u8()).collect();
    (pal, back, src)
}

pub fn plane_i(seed: u64, p: u64) -> Plane {
    let (pal, bi, si) = indexed_plane_data(seed, p);
    let back = bi.iter().map(|i| pack(pal[*i as usize])).collect();
    let src = si.iter().map(|i| pack(pal[*i as usize])).collect();
    let mut rng = Rng::derive(seed, "I-op", p);
    let (lo, co) = if p % 2 == 0 { (255, 255) } else { (rng.opacity(), rng.opacity()) };
    Plane { family: "I-indexed-background-source", label: format!("I(seed={},p={})", seed, p), back, src, lo, co, w: 32, h: 32 }
}

pub fn plane_sprite(plane: &Plane, modes: &[u16]) -> Sprite {
    if plane.family == "I-indexed-background-source" {
        // indexed sprite: layer 0 (plain) carries the backdrop; the source layers sit ABOVE it and carry the BACKGROUND flag
        let nums: Vec<u64> = plane.label.split(|c: char| !c.is_ascii_digit()).filter(|s| !s.is_empty()).map(|s| s.parse().unwrap()).collect();
        let (pal, bi, si) = indexed_plane_data(nums[0], nums[1]);
        let mut sp = Sprite::blank(plane.w, plane.h, Fmt::Indexed, modes.len());
        sp.transparent_index = 0;
        sp.palette = Some(pal.iter().enumerate().map(|(i, c)| (i as u32, PalEntryM { rgba: *c, name: None })).collect());
        sp.layers.push(LayerM::image("backdrop"));
        for (k, m) in modes.iter().enumerate() {
            let mut l = LayerM::image(MODE_NAMES[*m as usize]);
            l.blend = *m;
            l.opacity = plane.lo;
            l.flags |= LF_BACKGROUND;
            sp.layers.push(l);
            if k == 0 {
                sp.cels.insert((0, 0), CelM { x: 0, y: 0, opacity: 255, content: CelContentM::Image { w: plane.w, h: plane.h, pixels: bi.clone() }, ud: None });
            } else {
                sp.cels.insert((k as u16, 0), CelM { x: 0, y: 0, opacity: 255, content: CelContentM::Link(0), ud: None });
            }
            sp.cels.insert((k as u16, 1 + k as u16), CelM { x: 0, y: 0, opacity: plane.co, content: CelContentM::Image { w: plane.w, h: plane.h, pixels: si.clone() }, ud: None });
        }
        return sp;
    }
    if plane.family == "Y-grayscale-sprite" {
        // grayscale sprite: the cels store (v, a); the planes hold the same pixels as (v, v, v, a)
        let gray = |v: &[u32]| -> Vec<u8> { v.iter().flat_map(|p| { let c = unpack(*p); [c[0], c[3]] }).collect() };
        let (bg, sg) = (gray(&plane.back), gray(&plane.src));
        let mut sp = Sprite::blank(plane.w, plane.h, Fmt::Gray, modes.len());
        sp.layers.push(LayerM::image("backdrop"));
        for (k, m) in modes.iter().enumerate() {
            let mut l = LayerM::image(MODE_NAMES[*m as usize]);
            l.blend = *m;
            l.opacity = plane.lo;
            sp.layers.push(l);
            if k == 0 {
                sp.cels.insert((0, 0), CelM { x: 0, y: 0, opacity: 255, content: CelContentM::Image { w: plane.w, h: plane.h, pixels: bg.clone() }, ud: None });
            } else {
                sp.cels.insert((k as u16, 0), CelM { x: 0, y: 0, opacity: 255, content: CelContentM::Link(0), ud: None });
            }
            sp.cels.insert((k as u16, 1 + k as u16), CelM { x: 0, y: 0, opacity: plane.co, content: CelContentM::Image { w: plane.w, h: plane.h, pixels: sg.clone() }, ud: None });
        }
        return sp;
    }
    let mut sp = Sprite::blank(plane.w, plane.h, Fmt::Rgba, modes.len());
    let mut l0 = LayerM::image("backdrop");
    l0.blend = 0;
    l0.opacity = 255;
    sp.layers.push(l0);
    let backb = px_bytes(&plane.back);
    let srcb = px_bytes(&plane.src);
    if plane.family == "K-linked-source" {
        // frame 0 holds the backdrop and every mode layer's real source cel; frame 1 + k (the one rendered for mode k)
        // shows layer 1 + k through a link chunk with fields of its own
        sp.durations.push(100);
        for (k, m) in modes.iter().enumerate() {
            let mut l = LayerM::image(MODE_NAMES[*m as usize]);
            l.blend = *m;
            l.opacity = plane.lo;
            sp.layers.push(l);
            sp.cels.insert((0, 1 + k as u16), CelM { x: 0, y: 0, opacity: plane.co, content: CelContentM::Image { w: plane.w, h: plane.h, pixels: srcb.clone() }, ud: None });
            let own = [255u8, 0, plane.co ^ 0x55, 128][k % 4];
            sp.cels.insert((1 + k as u16, 1 + k as u16), CelM { x: 3 - (k as i16 % 7), y: (k as i16 % 5) - 2, opacity: own, content: CelContentM::Link(0), ud: None });
            sp.cels.insert((1 + k as u16, 0), CelM { x: 0, y: 0, opacity: 255, content: CelContentM::Link(0), ud: None });
        }
        sp.cels.insert((0, 0), CelM { x: 0, y: 0, opacity: 255, content: CelContentM::Image { w: plane.w, h: plane.h, pixels: backb.clone() }, ud: None });
        return sp;
    }
    if plane.family == "S-shifted-sparse-cel" {
        // the source cel is a rectangle of its own, partly off the canvas, mostly empty; the plane's `src` is what of
        // it lies on the canvas (nothing = transparent). The backdrop is a full-canvas cel.
        let nums: Vec<u64> = plane.label.split(|c: char| !c.is_ascii_digit()).filter(|s| !s.is_empty()).map(|s| s.parse().unwrap()).collect();
        let sh = shifted_data(nums[0], nums[1]);
        for (k, m) in modes.iter().enumerate() {
            let mut l = LayerM::image(MODE_NAMES[*m as usize]);
            l.blend = *m;
            l.opacity = plane.lo;
            sp.layers.push(l);
            if k == 0 {
                sp.cels.insert((0, 0), CelM { x: 0, y: 0, opacity: 255, content: CelContentM::Image { w: plane.w, h: plane.h, pixels: backb.clone() }, ud: None });
            } else {
                sp.cels.insert((k as u16, 0), CelM { x: 0, y: 0, opacity: 255, content: CelContentM::Link(0), ud: None });
            }
            sp.cels.insert((k as u16, 1 + k as u16), CelM { x: sh.x, y: sh.y, opacity: plane.co, content: CelContentM::Image { w: sh.cw, h: sh.ch, pixels: px_bytes(&sh.cel) }, ud: None });
        }
        return sp;
    }
    // family U: the BACKDROP is a tilemap cel on the lowest layer (8x8 tiles cut from the backdrop plane)
    let backdrop_tilemap = plane.family == "U-backdrop-tilemap" || plane.family == "V-two-tilesets";
    if backdrop_tilemap {
        let (tw, th) = (8u16, 8u16);
        let (mw, mh) = (plane.w / tw, plane.h / th);
        let mut pixels = vec![0u8; tw as usize * th as usize * 4];
        for ty in 0..mh as usize {
            for tx in 0..mw as usize {
                for y in 0..th as usize {
                    let row = (ty * th as usize + y) * plane.w as usize + tx * tw as usize;
                    pixels.extend_from_slice(&backb[row * 4..(row + tw as usize) * 4]);
                }
            }
        }
        sp.tilesets.push(TilesetM { id: 7, flags: TS_EMBED | TS_ZERO_EMPTY, count: mw as u32 * mh as u32 + 1, tw, th, base_index: 1, name: "back".into(), ext: None, pixels });
        sp.layers[0].kind = LayerKind::Tilemap(7);
    }
    // family T: the source reaches the blender through a tilemap cel (8x8 tiles cut from the source plane)
    let via_tilemap = plane.family == "T-through-tilemap" || plane.family == "V-two-tilesets";
    let (tw, th) = (8u16, 8u16);
    let (mw, mh) = (plane.w / tw, plane.h / th);
    if via_tilemap {
        let mut pixels = vec![0u8; tw as usize * th as usize * 4];
        for ty in 0..mh as usize {
            for tx in 0..mw as usize {
                for y in 0..th as usize {
                    let row = (ty * th as usize + y) * plane.w as usize + tx * tw as usize;
                    pixels.extend_from_slice(&srcb[row * 4..(row + tw as usize) * 4]);
                }
            }
        }
        sp.tilesets.push(TilesetM { id: 0, flags: TS_EMBED | TS_ZERO_EMPTY, count: mw as u32 * mh as u32 + 1, tw, th, base_index: 1, name: "src".into(), ext: None, pixels });
    }
    for (k, m) in modes.iter().enumerate() {
        let mut l = LayerM::image(MODE_NAMES[*m as usize]);
        l.blend = *m;
        l.opacity = plane.lo;
        if via_tilemap {
            l.kind = LayerKind::Tilemap(0);
        }
        sp.layers.push(l);
        if k == 0 {
            let content = if backdrop_tilemap { CelContentM::Tilemap { w: plane.w / 8, h: plane.h / 8, tiles: (1..=(plane.w as u32 / 8) * (plane.h as u32 / 8)).collect(), masks: [0x1fff_ffff, 0x2000_0000, 0x4000_0000, 0x8000_0000] } } else { CelContentM::Image { w: plane.w, h: plane.h, pixels: backb.clone() } };
            sp.cels.insert((0, 0), CelM { x: 0, y: 0, opacity: 255, content, ud: None });
        } else {
            sp.cels.insert((k as u16, 0), CelM { x: 0, y: 0, opacity: 255, content: CelContentM::Link(0), ud: None });
        }
        let content = if via_tilemap { CelContentM::Tilemap { w: mw, h: mh, tiles: (1..=mw as u32 * mh as u32).collect(), masks: [0x1fff_ffff, 0x2000_0000, 0x4000_0000, 0x8000_0000] } } else { CelContentM::Image { w: plane.w, h: plane.h, pixels: srcb.clone() } };
        sp.cels.insert((k as u16, 1 + k as u16), CelM { x: 0, y: 0, opacity: plane.co, content, ud: None });
    }
    sp
}

pub fn render_plane(plane: &Plane, modes: &[u16]) -> Result<Vec<Vec<u32>>, Violation> {
    let sp = plane_sprite(plane, modes);
    let mut v = Variation::none();
    v.default_storage = Storage::Raw;
    let mut rng = Rng::new(0);
    let (bytes, _) = encode(&compile(&sp, &mut rng, &v));
    let ase = load(&bytes).map_err(|e| Violation::new(format!("load-failed|blend-plane|{}", err_sig(&e)), format!("blend plane sprite failed to load: {}", e)))?;
    let mut out = Vec::with_capacity(modes.len());
    for (k, m) in modes.iter().enumerate() {
        let off = if plane.family == "K-linked-source" { 1 } else { 0 };
        let r = guarded(|| ase.frame(k as u32 + off).image());
        match r {
            Ok(img) => {
                if img.width() != plane.w as u32 || img.height() != plane.h as u32 {
                    return Err(Violation::new("frame-dim|blend-plane", format!("frame image {}x{} for canvas {}x{}", img.width(), img.height(), plane.w, plane.h)));
                }
                out.push(img.as_raw().chunks_exact(4).map(|c| pack([c[0], c[1], c[2], c[3]])).collect());
            }
            Err(p) => {
                if !p.in_library() {
                    panic!("harness panic while rendering: {} at {}", p.message, p.location);
                }
                // which pixel? bisect by re-rendering single pixels is costly; report the plane
                return Err(Violation::new(
                    format!("render-panic|{}|{}", MODE_NAMES[*m as usize], p.signature()),
                    format!("rendering mode {} on plane {} (lo={}, co={}) panicked: {} at {}", MODE_NAMES[*m as usize], plane.label, plane.lo, plane.co, p.message, p.location),
                )
                .with_extra(json!({"mode": m, "plane": plane.label, "lo": plane.lo, "co": plane.co, "family": plane.family, "frame": p.asefile_frame})));
            }
        }
    }
    Ok(out)
}

fn loose_eq(a: u32, b: u32) -> bool {
    a == b || ((a >> 24) == 0 && (b >> 24) == 0)
}

/// the property's "8-bit rounded product", as plain arithmetic
pub fn rounded_product(a: u8, b: u8) -> u8 {
    ((a as u32 * b as u32 * 2 + 255) / 510) as u8
}

/// C03: every rendered pixel equals the Aseprite oracle.
pub fn check_oracle(plane: &Plane, modes: &[u16], rendered: &[Vec<u32>]) -> Vec<Violation> {
    let n = plane.back.len();
    let op = blendref::mul_un8(plane.lo, plane.co);
    // the backdrop as the oracle composes it: Normal at 255 over a transparent canvas
    let zeros = vec![0u32; n];
    let mut backp = vec![0u32; n];
    blendref::blend_many(0, &zeros, &plane.back, 255, &mut backp);
    let mut out = Vec::new();
    let mut exp = vec![0u32; n];
    for (k, m) in modes.iter().enumerate() {
        blendref::blend_many(*m as u32, &backp, &plane.src, op, &mut exp);
        let obs = &rendered[k];
        // bit for bit, the colour channels of fully transparent results included (sixth round). Family S is the exception:
        // where its sparse cel does not reach, the plane's "source" is a stand-in (nothing is blended there at all)
        let same = |a: u32, b: u32| if plane.family == "S-shifted-sparse-cel" { loose_eq(a, b) } else { a == b };
        if let Some(i) = (0..n).find(|i| !same(obs[*i], exp[*i])) {
            let bad = (0..n).filter(|i| !same(obs[*i], exp[*i])).count();
            out.push(
                Violation::new(
                    format!("blend-mismatch|{}|{}", MODE_NAMES[*m as usize], plane.family),
                    format!(
                        "mode {} backdrop {:?} source {:?} layer opacity {} cel opacity {}: asefile {:?}, Aseprite {:?} ({} of {} pixels of plane {} differ)",
                        MODE_NAMES[*m as usize],
                        unpack(plane.back[i]),
                        unpack(plane.src[i]),
                        plane.lo,
                        plane.co,
                        unpack(obs[i]),
                        unpack(exp[i]),
                        bad,
                        n,
                        plane.label
                    ),
                )
                .with_extra(json!({"mode": m, "backdrop": unpack(plane.back[i]), "source": unpack(plane.src[i]), "lo": plane.lo, "co": plane.co, "observed": unpack(obs[i]), "expected": unpack(exp[i]), "family": plane.family, "plane": plane.label, "pixel": i})),
            );
        }
    }
    out
}

/// C17: mode-independent laws evaluated on observed pixels only. modes[0] must be Normal.
pub fn check_laws(plane: &Plane, modes: &[u16], rendered: &[Vec<u32>]) -> Vec<Violation> {
    assert_eq!(modes[0], 0);
    let n = plane.back.len();
    let op = rounded_product(plane.lo, plane.co);
    let mut out = Vec::new();
    let normal = &rendered[0];
    for (k, m) in modes.iter().enumerate() {
        let obs = &rendered[k];
        let name = MODE_NAMES[*m as usize];
        let mut first: [Option<(usize, String)>; 4] = [None, None, None, None];
        for i in 0..n {
            let b = unpack(plane.back[i]);
            let s = unpack(plane.src[i]);
            let o = unpack(obs[i]);
            // law 1: alpha equals the Normal-mode alpha
            if first[0].is_none() && o[3] != unpack(normal[i])[3] {
                first[0] = Some((i, format!("alpha {} differs from Normal-mode alpha {}", o[3], unpack(normal[i])[3])));
            }
            // law 2: transparent source or zero opacity leaves a visible backdrop unchanged
            if first[1].is_none() && b[3] != 0 && (s[3] == 0 || op == 0) && o != b {
                first[1] = Some((i, format!("visible backdrop changed to {:?} by a source with alpha {} at opacity product {}", o, s[3], op)));
            }
            // law 3: over a transparent backdrop: source colour, alpha scaled by the opacity
            if first[2].is_none() && b[3] == 0 {
                let ea = rounded_product(s[3], op);
                let ok = if ea == 0 { o[3] == 0 } else { o == [s[0], s[1], s[2], ea] };
                if !ok {
                    first[2] = Some((i, format!("over transparent backdrop got {:?}, expected source colour with alpha {}", o, ea)));
                }
            }
            // law 4: Normal at full opacity with an opaque source returns the source
            if first[3].is_none() && *m == 0 && plane.lo == 255 && plane.co == 255 && s[3] == 255 && o != s {
                first[3] = Some((i, format!("Normal at full opacity with opaque source returned {:?}", o)));
            }
        }
        for (li, f) in first.iter().enumerate() {
            if let Some((i, msg)) = f {
                out.push(
                    Violation::new(format!("law{}|{}", li + 1, name), format!("mode {} backdrop {:?} source {:?} lo {} co {}: {}", name, unpack(plane.back[*i]), unpack(plane.src[*i]), plane.lo, plane.co, msg))
                        .with_extra(json!({"mode": m, "backdrop": unpack(plane.back[*i]), "source": unpack(plane.src[*i]), "lo": plane.lo, "co": plane.co, "observed": unpack(obs[*i]), "law": li + 1, "family": plane.family, "plane": plane.label})),
                );
            }
        }
    }
    out
}

// ---------------------------------------------------------------------------
// plane families
// ---------------------------------------------------------------------------

pub const ALL_MODES: [u16; 19] = [0, 1, 2, 3, 4, 5, 6, 7, 8, 9, 10, 11, 12, 13, 14, 15, 16, 17, 18];
pub const SEPARABLE_PLUS_NORMAL: [u16; 15] = [0, 1, 2, 3, 4, 5, 6, 7, 8, 9, 10, 11, 16, 17, 18];
pub const HSL_PLUS_NORMAL: [u16; 5] = [0, 12, 13, 14, 15];

/// [A] all 65536 (backdrop channel, source channel) pairs at fixed alphas.
/// R carries (b, s); G carries a bijective image ((b+85), (s+170)); B carries the swapped pair (s, b).
pub fn plane_a(ba: u8, sa: u8, lo: u8, co: u8) -> Plane {
    let mut back = Vec::with_capacity(65536);
    let mut src = Vec::with_capacity(65536);
    for i in 0..65536u32 {
        let b = (i >> 8) as u8;
        let s = (i & 255) as u8;
        back.push(pack([b, b.wrapping_add(85), s, ba]));
        src.push(pack([s, s.wrapping_add(170), b, sa]));
    }
    Plane { family: "A-channel-space", label: format!("A(Ba={},Sa={})", ba, sa), back, src, lo, co, w: 256, h: 256 }
}

pub fn adversarial_pairs(seed: u64) -> (Vec<u32>, Vec<u32>) {
    let fixed: [([u8; 4], [u8; 4]); 16] = [
        ([0, 0, 0, 255], [255, 255, 255, 255]),
        ([255, 255, 255, 255], [0, 0, 0, 255]),
        ([128, 127, 129, 255], [127, 128, 126, 255]),
        ([64, 63, 65, 128], [191, 192, 190, 127]),
        ([1, 254, 2, 1], [254, 1, 253, 254]),
        ([10, 10, 200, 200], [10, 10, 200, 55]),
        ([81, 81, 163, 129], [50, 104, 58, 189]),
        ([245, 65, 48, 10], [42, 41, 227, 209]),
        ([0, 205, 249, 255], [237, 118, 20, 255]),
        ([100, 100, 100, 255], [100, 100, 100, 255]),
        ([200, 100, 100, 254], [100, 200, 200, 1]),
        ([5, 250, 128, 0], [250, 5, 128, 255]),
        ([5, 250, 128, 255], [250, 5, 128, 0]),
        ([0, 0, 0, 0], [0, 0, 0, 0]),
        ([255, 0, 255, 127], [0, 255, 0, 128]),
        ([63, 64, 64, 64], [64, 64, 63, 192]),
    ];
    let mut back: Vec<u32> = fixed.iter().map(|p| pack(p.0)).collect();
    let mut src: Vec<u32> = fixed.iter().map(|p| pack(p.1)).collect();
    let mut rng = Rng::derive(seed, "adversarial", 0);
    while back.len() < 64 {
        back.push(rng.u32());
        src.push(rng.u32());
    }
    (back, src)
}

/// [B] one (layer opacity, cel opacity) pair over 64 adversarial pixel pairs
pub fn plane_b(seed: u64, lo: u8, co: u8) -> Plane {
    let (back, src) = adversarial_pairs(seed);
    Plane { family: "B-opacity-plane", label: format!("B(lo={},co={})", lo, co), back, src, lo, co, w: 64, h: 1 }
}

pub const LATTICE: [u8; 11] = [0, 1, 2, 63, 64, 127, 128, 129, 191, 254, 255];
pub const ALPHAS6: [u8; 6] = [0, 1, 127, 128, 254, 255];
pub const LATTICE_POINTS: u64 = 1_771_561 * 36; // 11^6 rgb pairs x 6x6 alpha pairs

/// [C] boundary lattice for the non-separable modes: plane p covers lattice
/// points p*65536 .. (p+1)*65536 of the mixed-radix enumeration.
pub fn plane_c(p: u64, op: u8) -> Plane {
    let start = p * 65536;
    let mut back = Vec::with_capacity(65536);
    let mut src = Vec::with_capacity(65536);
    for k in 0..65536u64 {
        let mut idx = (start + k) % LATTICE_POINTS;
        let mut d = [0usize; 8];
        for j in 0..6 {
            d[j] = (idx % 11) as usize;
            idx /= 11;
        }
        d[6] = (idx % 6) as usize;
        idx /= 6;
        d[7] = (idx % 6) as usize;
        back.push(pack([LATTICE[d[0]], LATTICE[d[1]], LATTICE[d[2]], ALPHAS6[d[6]]]));
        src.push(pack([LATTICE[d[3]], LATTICE[d[4]], LATTICE[d[5]], ALPHAS6[d[7]]]));
    }
    Plane { family: "C-hsl-lattice", label: format!("C(p={},op={})", p, op), back, src, lo: op, co: 255, w: 256, h: 256 }
}

/// [C2] random pairs skewed towards channel ties (r==g, g==b, r==b) and near-ties
pub fn plane_c2(seed: u64, p: u64) -> Plane {
    let mut rng = Rng::derive(seed, "C2", p);
    let mut back = Vec::with_capacity(65536);
    let mut src = Vec::with_capacity(65536);
    let mut tie = |rng: &mut Rng| -> u32 {
        let mut c = [rng.u8(), rng.u8(), rng.u8(), rng.u8()];
        match rng.below(8) {
            0 => c[1] = c[0],
            1 => c[2] = c[1],
            2 => c[2] = c[0],
            3 => {
                c[1] = c[0];
                c[2] = c[0]
            }
            4 => c[1] = c[0].wrapping_add(1),
            5 => c[2] = c[1].wrapping_sub(1),
            _ => {}
        }
        match rng.below(4) {
            0 => c[3] = 255,
            1 => c[3] = *rng.pick(&[0u8, 1, 127, 128, 254]),
            _ => {}
        }
        pack(c)
    };
    for _ in 0..65536 {
        back.push(tie(&mut rng));
        src.push(tie(&mut rng));
    }
    let lo = rng.opacity();
    let co = rng.opacity();
    Plane { family: "C2-hsl-ties", label: format!("C2(p={})", p), back, src, lo, co, w: 256, h: 256 }
}

/// [E] one side grey (r == g == b), the other an arbitrary colour: the HSL helpers take special
/// paths for colours without saturation (all 256 grey values occur in every plane)
pub fn plane_e(seed: u64, p: u64) -> Plane {
    let mut rng = Rng::derive(seed, "E", p);
    let mut back = Vec::with_capacity(65536);
    let mut src = Vec::with_capacity(65536);
    let opaque = p % 2 == 0;
    for i in 0..65536u32 {
        let v = (i & 255) as u8;
        let grey = [v, v, v, if opaque { 255 } else { rng.u8() | 1 }];
        let mut other = unpack(rng.u32());
        if opaque {
            other[3] = 255;
        }
        if (i >> 8) % 2 == 0 {
            back.push(pack(other));
            src.push(pack(grey));
        } else {
            back.push(pack(grey));
            src.push(pack(other));
        }
    }
    let (lo, co) = if p % 4 < 2 { (255, 255) } else { (rng.opacity(), rng.opacity()) };
    Plane { family: "E-hsl-grey", label: format!("E(p={})", p), back, src, lo, co, w: 256, h: 256 }
}

/// [D] uniform / skewed random full-domain samples
pub fn plane_d(seed: u64, p: u64) -> Plane {
    let mut rng = Rng::derive(seed, "D", p);
    let skew = p % 3;
    let mut back = Vec::with_capacity(65536);
    let mut src = Vec::with_capacity(65536);
    for _ in 0..65536 {
        let mut b = rng.u32();
        let mut s = rng.u32();
        if skew == 1 {
            // boundary-heavy channels
            let f = |rng: &mut Rng, x: u32| -> u32 {
                let mut c = unpack(x);
                for ch in c.iter_mut() {
                    if rng.chance(1, 2) {
                        *ch = *rng.pick(&[0u8, 1, 2, 63, 64, 65, 126, 127, 128, 129, 191, 192, 253, 254, 255]);
                    }
                }
                pack(c)
            };
            b = f(&mut rng, b);
            s = f(&mut rng, s);
        } else if skew == 2 {
            // opaque-ish
            if rng.chance(2, 3) {
                b |= 0xff00_0000;
            }
            if rng.chance(2, 3) {
                s |= 0xff00_0000;
            }
        }
        back.push(b);
        src.push(s);
    }
    let (lo, co) = if p % 5 == 0 { (255, 255) } else { (rng.opacity(), rng.opacity()) };
    Plane { family: "D-random", label: format!("D(p={},skew={})", p, skew), back, src, lo, co, w: 256, h: 256 }
}

/// [Z] zero-opacity and alpha-0 planes (C17 laws 2 and 3)
pub fn plane_z(seed: u64, p: u64) -> Plane {
    let mut rng = Rng::derive(seed, "Z", p);
    let mut back = Vec::with_capacity(16384);
    let mut src = Vec::with_capacity(16384);
    let variant = p % 6;
    for _ in 0..16384 {
        let mut b = rng.u32();
        let mut s = rng.u32();
        match variant {
            3 => s &= 0x00ff_ffff,                      // source alpha 0
            4 => b &= 0x00ff_ffff,                      // backdrop alpha 0
            5 => {
                if rng.chance(1, 2) {
                    s &= 0x00ff_ffff
                } else {
                    b &= 0x00ff_ffff
                }
            }
            _ => {}
        }
        back.push(b);
        src.push(s);
    }
    let (lo, co) = match variant {
        0 => (0, rng.opacity()),
        1 => (rng.opacity(), 0),
        2 => (0, 0),
        _ => (rng.opacity(), rng.opacity()),
    };
    Plane { family: "Z-zero-opacity-alpha0", label: format!("Z(p={},variant={})", p, variant), back, src, lo, co, w: 128, h: 128 }
}

/// [U] the backdrop is a tilemap cel on the lowest layer; the source is an image cel that lies inside the canvas,
/// mostly at full opacity (nothing but the blender may decide what an image cel over tiles looks like)
pub fn plane_u(seed: u64, p: u64) -> Plane {
    let mut rng = Rng::derive(seed, "U", p);
    let (w, h) = (32u16, 32u16);
    let n = w as usize * h as usize;
    let mut back = Vec::with_capacity(n);
    let mut src = Vec::with_capacity(n);
    for _ in 0..n {
        back.push(rng.u32() | if rng.chance(2, 3) { 0xff00_0000 } else { 0 });
        src.push(rng.u32() | if rng.chance(1, 3) { 0xff00_0000 } else { 0 });
    }
    let (lo, co) = if p % 3 == 0 { (rng.opacity(), rng.opacity()) } else { (255, 255) };
    Plane { family: "U-backdrop-tilemap", label: format!("U(p={})", p), back, src, lo, co, w, h }
}

/// [O] every source pixel opaque and the source cel covering the whole canvas: the only thing between "hides what is
/// below" and "blends with what is below" is the opacity - on the layer, on the cel, or on both
pub fn plane_o(seed: u64, p: u64) -> Plane {
    let mut rng = Rng::derive(seed, "O", p);
    let (w, h) = (16u16, 16u16);
    let n = w as usize * h as usize;
    let back: Vec<u32> = (0..n).map(|_| rng.u32() | if rng.chance(3, 4) { 0xff00_0000 } else { 0 }).collect();
    let src: Vec<u32> = (0..n).map(|_| rng.u32() | 0xff00_0000).collect();
    let (lo, co) = match p % 4 {
        0 => (255, rng.opacity()),
        1 => (rng.opacity(), 255),
        2 => (255, 255),
        _ => (255, *rng.pick(&[254u8, 128, 1, 0])),
    };
    Plane { family: "O-opaque-source", label: format!("O(p={})", p), back, src, lo, co, w, h }
}

/// [K] the source reaches the blender through a LINKED cel whose own chunk carries another opacity and position
/// than the cel it links to (a linked cel renders exactly like its target): random pairs, random opacity pairs
pub fn plane_k(seed: u64, p: u64) -> Plane {
    let mut rng = Rng::derive(seed, "K", p);
    let (w, h) = (16u16, 16u16);
    let n = w as usize * h as usize;
    let back: Vec<u32> = (0..n).map(|_| rng.u32() | if rng.chance(1, 2) { 0xff00_0000 } else { 0 }).collect();
    let src: Vec<u32> = (0..n).map(|_| rng.u32()).collect();
    let (lo, co) = match p % 3 {
        0 => (255, rng.opacity()),
        1 => (rng.opacity(), rng.opacity()),
        _ => (rng.opacity(), 255),
    };
    Plane { family: "K-linked-source", label: format!("K(p={})", p), back, src, lo, co, w, h }
}

/// [T] the source pixels reach the blender through a tilemap cel: random pairs, all opacity pairs incl. 0 and 255
pub fn plane_t(seed: u64, p: u64) -> Plane {
    let mut rng = Rng::derive(seed, "T", p);
    let (w, h) = (64u16, 64u16);
    let n = w as usize * h as usize;
    let mut back = Vec::with_capacity(n);
    let mut src = Vec::with_capacity(n);
    for _ in 0..n {
        back.push(rng.u32() | if rng.chance(1, 2) { 0xff00_0000 } else { 0 });
        src.push(rng.u32() | if rng.chance(1, 3) { 0xff00_0000 } else { 0 });
    }
    let (lo, co) = match p % 8 {
        0 => (255, 255),
        1 => (rng.opacity(), 255),
        2 => (255, rng.opacity()),
        3 => (0, rng.opacity()),
        4 => (rng.opacity(), 0),
        _ => (rng.opacity(), rng.opacity()),
    };
    Plane { family: "T-through-tilemap", label: format!("T(p={})", p), back, src, lo, co, w, h }
}

/// [Y] grayscale sprites: every (backdrop value, source value) pair at one (backdrop alpha, source alpha) pair per
/// plane. asefile blends grayscale cels as the RGBA pixels (v, v, v, a) (C06), so the oracle is the RGBA blender -
/// whose Hue / Saturation modes do NOT keep gray over gray gray (the saturation-sort quirk).
pub fn plane_y(seed: u64, p: u64) -> Plane {
    let mut rng = Rng::derive(seed, "Y", p);
    const AL: [u8; 6] = [255, 254, 128, 127, 1, 0];
    let (ba, sa) = if p < 36 { (AL[(p / 6) as usize], AL[(p % 6) as usize]) } else { (rng.u8(), rng.u8()) };
    let mut back = Vec::with_capacity(65536);
    let mut src = Vec::with_capacity(65536);
    for i in 0..65536u32 {
        let (b, s) = ((i & 255) as u8, (i >> 8) as u8);
        back.push(pack([b, b, b, ba]));
        src.push(pack([s, s, s, sa]));
    }
    let (lo, co) = if p % 3 == 0 { (255, 255) } else { (rng.opacity(), rng.opacity()) };
    Plane { family: "Y-grayscale-sprite", label: format!("Y(p={},ba={},sa={})", p, ba, sa), back, src, lo, co, w: 256, h: 256 }
}

pub struct Shifted {
    pub w: u16,
    pub h: u16,
    pub x: i16,
    pub y: i16,
    pub cw: u16,
    pub ch: u16,
    pub cel: Vec<u32>,
    pub back: Vec<u32>,
}

/// [S] data: a canvas whose backdrop has an opaque part, a transparent part and a translucent part (split along a
/// random column and row), and a source cel that hangs over one, two or more canvas edges and is mostly empty -
/// blank rows, blank columns, blobs with gaps - as drawings are.
pub fn shifted_data(seed: u64, p: u64) -> Shifted {
    let mut rng = Rng::derive(seed, "S", p);
    let (w, h) = (rng.range(4, 40) as u16, rng.range(4, 40) as u16);
    let (cw, ch) = (rng.range(2, 48) as u16, rng.range(2, 48) as u16);
    // offsets: over the top/left edge, over the bottom/right edge, inside, exactly aligned
    let off = |rng: &mut Rng, canvas: u16, size: u16| -> i16 {
        match rng.below(5) {
            0 | 1 => -(rng.range(1, size as i64 - 1) as i16),
            2 => (canvas as i64 - rng.range(1, size as i64 - 1)).max(0) as i16,
            3 => rng.range(0, canvas as i64 - 1) as i16,
            _ => 0,
        }
    };
    let (x, y) = (off(&mut rng, w, cw), off(&mut rng, h, ch));
    let mut cel: Vec<u32> = (0..cw as usize * ch as usize).map(|_| rng.u32() | if rng.chance(1, 2) { 0xff00_0000 } else { 0 }).collect();
    // emptiness pattern
    let style = p % 4;
    for cy in 0..ch as usize {
        let row_blank = (style == 0 || style == 2) && rng.chance(1, 2);
        for cx in 0..cw as usize {
            let col_blank = (style == 1 || style == 2) && (cx * 7 + p as usize) % 3 == 0;
            let lead_blank = style == 3 && cx < (cw as usize) / 2;
            if row_blank || col_blank || lead_blank {
                cel[cy * cw as usize + cx] = 0;
            }
        }
    }
    let (sx, sy) = (rng.range(0, w as i64) as usize, rng.range(0, h as i64) as usize);
    let variant = rng.below(3);
    let back: Vec<u32> = (0..w as usize * h as usize)
        .map(|i| {
            let (px, py) = (i % w as usize, i / w as usize);
            let c = rng.u32();
            match (px < sx, py < sy, variant) {
                (true, _, 0) | (_, true, 1) => c | 0xff00_0000,
                (false, false, _) => 0,
                _ => c,
            }
        })
        .collect();
    Shifted { w, h, x, y, cw, ch, cel, back }
}

pub fn plane_s(seed: u64, p: u64) -> Plane {
    let sh = shifted_data(seed, p);
    let mut src = vec![0u32; sh.w as usize * sh.h as usize];
    for cy in 0..sh.ch as i64 {
        for cx in 0..sh.cw as i64 {
            let (px, py) = (cx + sh.x as i64, cy + sh.y as i64);
            if px >= 0 && py >= 0 && px < sh.w as i64 && py < sh.h as i64 {
                src[(py * sh.w as i64 + px) as usize] = sh.cel[(cy * sh.cw as i64 + cx) as usize];
            }
        }
    }
    let mut rng = Rng::derive(seed, "S-op", p);
    let (lo, co) = if p % 2 == 0 { (255, 255) } else { (rng.opacity(), rng.opacity()) };
    Plane { family: "S-shifted-sparse-cel", label: format!("S(seed={},p={})", seed, p), back: sh.back, src, lo, co, w: sh.w, h: sh.h }
}

/// [V] backdrop AND source are tilemap cels, on two different tilesets whose tiles carry the same ids; whole tiles
/// are blank in one tileset where the other one is painted (erased tiles keep their id)
pub fn plane_v(seed: u64, p: u64) -> Plane {
    let mut rng = Rng::derive(seed, "V", p);
    let (w, h) = (64u16, 64u16);
    let n = w as usize * h as usize;
    let mut back: Vec<u32> = (0..n).map(|_| rng.u32() | if rng.chance(1, 2) { 0xff00_0000 } else { 0 }).collect();
    let mut src: Vec<u32> = (0..n).map(|_| rng.u32() | if rng.chance(1, 2) { 0xff00_0000 } else { 0 }).collect();
    for ty in 0..8usize {
        for tx in 0..8usize {
            let which = rng.below(4);
            for y in 0..8usize {
                for x in 0..8usize {
                    let i = (ty * 8 + y) * w as usize + tx * 8 + x;
                    match which {
                        0 => back[i] = 0,
                        1 => src[i] = 0,
                        _ => {}
                    }
                }
            }
        }
    }
    let (lo, co) = if p % 2 == 0 { (255, 255) } else { (rng.opacity(), rng.opacity()) };
    Plane { family: "V-two-tilesets", label: format!("V(p={})", p), back, src, lo, co, w, h }
}

/// [G] cels with more than 65536 pixels (row offsets and pixel counts beyond 16 bits, up to a megapixel):
/// random pairs at random opacities
pub fn plane_g(seed: u64, p: u64) -> Plane {
    let mut rng = Rng::derive(seed, "G", p);
    let (w, h) = [(256u16, 257u16), (257, 256), (320, 240), (512, 512), (1024, 257), (600, 500), (2, 40_000), (1024, 1024)][(p % 8) as usize];
    let n = w as usize * h as usize;
    let mut back = Vec::with_capacity(n);
    let mut src = Vec::with_capacity(n);
    for _ in 0..n {
        back.push(rng.u32() | if rng.chance(1, 2) { 0xff00_0000 } else { 0 });
        src.push(rng.u32() | if rng.chance(1, 3) { 0xff00_0000 } else { 0 });
    }
    let (lo, co) = match p % 3 {
        0 => (rng.opacity(), 255),
        1 => (255, rng.opacity()),
        _ => (rng.opacity(), rng.opacity()),
    };
    Plane { family: "G-large-cel", label: format!("G(p={},{}x{})", p, w, h), back, src, lo, co, w, h }
}

// ---------------------------------------------------------------------------
// [F] stacks: several blended cels per frame, flat colours (runs of identical
// backdrop/source pairs across consecutive cels), non-overlapping shapes
// ---------------------------------------------------------------------------

pub struct Stack {
    pub label: String,
    pub w: u16,
    pub h: u16,
    /// per layer: (mode, layer opacity, cel opacity, pixels)
    pub layers: Vec<(u16, u8, u8, Vec<u32>)>,
}

pub fn stack_f(seed: u64, p: u64) -> Stack {
    let mut rng = Rng::derive(seed, "F", p);
    let (w, h) = (48u16, 16u16);
    let n = (w as usize) * (h as usize);
    let k = 3 + rng.below(3) as usize;
    // a tiny colour set shared by all layers
    let colours: Vec<u32> = (0..3).map(|_| rng.u32() | if rng.chance(2, 3) { 0xff00_0000 } else { 0x0100_0000 }).collect();
    let mut layers = Vec::new();
    // layer 0: flat backdrop (one colour, sometimes with a transparent half)
    let bc = colours[0];
    let half = rng.chance(1, 3);
    layers.push((0u16, 255u8, 255u8, (0..n).map(|i| if half && i % (w as usize) >= w as usize / 2 { 0 } else { bc }).collect::<Vec<u32>>()));
    for j in 1..=k {
        let mode = rng.range(0, 18) as u16;
        let (lo, co) = (rng.opacity(), rng.opacity());
        // a flat rectangle of one colour, placed so that shapes of different layers mostly do not overlap
        // consecutive layers often share the colour (identical backdrop/source pairs across cels)
        let colour = if rng.chance(2, 3) { colours[1] } else { colours[2] };
        let x0 = ((j - 1) * (w as usize) / k) as usize;
        let x1 = (j * (w as usize) / k) as usize;
        let px: Vec<u32> = (0..n).map(|i| { let x = i % w as usize; if x >= x0 && x < x1 { colour } else { 0 } }).collect();
        layers.push((mode, lo, co, px));
    }
    Stack { label: format!("F(p={},layers={})", p, k + 1), w, h, layers }
}

/// C17 on stacks, without any reference implementation: (1) the stack rendered with every mode replaced by Normal
/// has the same alpha everywhere; (2) a copy of any layer inserted just below it with a zero opacity product (zero
/// cel opacity, or zero layer opacity) changes nothing - in particular not what the layers above it produce.
pub fn check_stack_laws(stack: &Stack) -> Vec<Violation> {
    let base = match render_stack(stack) {
        Ok((o, _)) => o,
        Err(v) => return vec![v],
    };
    let n = base.len();
    let mut out = Vec::new();
    let normal = Stack { label: format!("{}:all-normal", stack.label), w: stack.w, h: stack.h, layers: stack.layers.iter().map(|(_, lo, co, px)| (0u16, *lo, *co, px.clone())).collect() };
    match render_stack(&normal) {
        Ok((o, bytes)) => {
            if let Some(i) = (0..n).find(|i| o[*i] >> 24 != base[*i] >> 24) {
                out.push(Violation::new("law1|stack", format!("pixel {} of stack {}: alpha {} but the same stack in Normal mode has alpha {}", i, stack.label, base[i] >> 24, o[i] >> 24)).with_input(&bytes));
            }
        }
        Err(v) => out.push(v),
    }
    for j in 1..stack.layers.len() {
        let mut layers = stack.layers.clone();
        let (m, lo, co, px) = stack.layers[j].clone();
        let ghost = if j % 2 == 0 { (m, lo, 0u8, px) } else { (m, 0u8, co, px) };
        layers.insert(j, ghost);
        let plus = Stack { label: format!("{}:ghost-below-{}", stack.label, j), w: stack.w, h: stack.h, layers };
        match render_stack(&plus) {
            Ok((o, bytes)) => {
                if let Some(i) = (0..n).find(|i| !loose_eq(o[*i], base[*i])) {
                    out.push(Violation::new(format!("law2|stack|{}", MODE_NAMES[m as usize]), format!("pixel {} of stack {}: {:?} with a zero-opacity copy of layer {} inserted below it, {:?} without", i, stack.label, unpack(o[i]), j, unpack(base[i]))).with_input(&bytes));
                    break;
                }
            }
            Err(v) => {
                out.push(v);
                break;
            }
        }
    }
    out
}

/// Renders a stack through Frame::image; returns the observed pixels and the file.
pub fn render_stack(stack: &Stack) -> Result<(Vec<u32>, Vec<u8>), Violation> {
    let (bytes, ase) = stack_file(stack)?;
    match guarded(|| ase.frame(0).image()) {
        Ok(img) => Ok((img.as_raw().chunks_exact(4).map(|c| pack([c[0], c[1], c[2], c[3]])).collect(), bytes)),
        Err(p) => Err(Violation::new(format!("render-panic|stack|{}", p.signature()), format!("rendering stack {} panicked: {}", stack.label, p.message))),
    }
}

fn stack_file(stack: &Stack) -> Result<(Vec<u8>, asefile::AsepriteFile), Violation> {
    let mut sp = Sprite::blank(stack.w, stack.h, Fmt::Rgba, 1);
    for (j, (mode, lo, co, px)) in stack.layers.iter().enumerate() {
        let mut l = LayerM::image(MODE_NAMES[*mode as usize]);
        l.blend = *mode;
        l.opacity = *lo;
        sp.layers.push(l);
        // the cel stores only the bounding box of its non-transparent pixels (as Aseprite does)
        let w = stack.w as usize;
        let cols: Vec<usize> = (0..w).filter(|x| (0..stack.h as usize).any(|y| px[y * w + x] >> 24 != 0)).collect();
        let (x0, x1) = if j == 0 || cols.is_empty() { (0, w) } else { (cols[0], cols[cols.len() - 1] + 1) };
        let mut sub: Vec<u32> = Vec::with_capacity((x1 - x0) * stack.h as usize);
        for y in 0..stack.h as usize {
            sub.extend_from_slice(&px[y * w + x0..y * w + x1]);
        }
        sp.cels.insert((0, j as u16), CelM { x: x0 as i16, y: 0, opacity: *co, content: CelContentM::Image { w: (x1 - x0) as u16, h: stack.h, pixels: px_bytes(&sub) }, ud: None });
    }
    let mut v = Variation::none();
    v.default_storage = Storage::Raw;
    let mut rng = Rng::new(0);
    let (bytes, _) = encode(&compile(&sp, &mut rng, &v));
    match load(&bytes) {
        Ok(a) => Ok((bytes, a)),
        Err(e) => Err(Violation::new(format!("load-failed|blend-stack|{}", err_sig(&e)), format!("stack sprite failed to load: {}", e))),
    }
}

pub fn check_stack(stack: &Stack) -> Vec<Violation> {
    let (obs, bytes) = match render_stack(stack) {
        Ok(x) => x,
        Err(v) => return vec![v],
    };
    let n = stack.w as usize * stack.h as usize;
    let mut canvas = vec![0u32; n];
    let mut out = vec![0u32; n];
    for (mode, lo, co, px) in &stack.layers {
        blendref::blend_many(*mode as u32, &canvas, px, blendref::mul_un8(*lo, *co), &mut out);
        std::mem::swap(&mut canvas, &mut out);
    }
    if let Some(i) = (0..n).find(|i| !loose_eq(obs[*i], canvas[*i])) {
        let desc: Vec<String> = stack.layers.iter().map(|(m, lo, co, px)| format!("{}(lo={},co={},px={:?})", MODE_NAMES[*m as usize], lo, co, unpack(px[i]))).collect();
        return vec![Violation::new("blend-mismatch|stack|F-stacks", format!("pixel {} of a {}-layer stack: asefile {:?}, Aseprite {:?}; layers bottom-up: {}", i, stack.layers.len(), unpack(obs[i]), unpack(canvas[i]), desc.join(" ")))
            .with_input(&bytes)
            .with_extra(json!({"stack": stack.label, "pixel": i, "observed": unpack(obs[i]), "expected": unpack(canvas[i])}))];
    }
    vec![]
}

// ---------------------------------------------------------------------------
// schedule of planes per tier
// ---------------------------------------------------------------------------

#[derive(Clone, Debug)]
pub enum Job {
    A { ba: u8, sa: u8 },
    B { lo: u8, co: u8 },
    C { p: u64, op: u8 },
    C2 { p: u64 },
    D { p: u64 },
    E { p: u64 },
    F { p: u64 },
    Z { p: u64 },
    G { p: u64 },
    T { p: u64 },
    U { p: u64 },
    O { p: u64 },
    K { p: u64 },
    I { p: u64 },
    Y { p: u64 },
    S { p: u64 },
    V { p: u64 },
}

pub fn alpha_lattice_24() -> Vec<u8> {
    vec![0, 1, 2, 3, 15, 31, 32, 63, 64, 65, 96, 126, 127, 128, 129, 160, 191, 192, 223, 224, 252, 253, 254, 255]
}

pub fn schedule(tier: Tier, seed: u64) -> Vec<Job> {
    let mut jobs = Vec::new();
    match tier {
        Tier::Quick => {
            let lat = alpha_lattice_24();
            for ba in &lat {
                for sa in &lat {
                    jobs.push(Job::A { ba: *ba, sa: *sa });
                }
            }
        }
        Tier::Thorough => {
            for ba in 0..=255u8 {
                for sa in 0..=255u8 {
                    jobs.push(Job::A { ba, sa });
                }
            }
        }
    }
    for lo in 0..=255u8 {
        for co in 0..=255u8 {
            jobs.push(Job::B { lo, co });
        }
    }
    let cplanes = (LATTICE_POINTS + 65535) / 65536;
    let step = tier.pick(16, 1);
    let mut rng = Rng::derive(seed, "C-offset", 0);
    let off = rng.below(step);
    let mut p = off;
    while p < cplanes {
        for op in [255u8, 128, 1] {
            jobs.push(Job::C { p, op });
        }
        p += step;
    }
    for p in 0..tier.pick(24, 2400) {
        jobs.push(Job::C2 { p });
    }
    for p in 0..tier.pick(30, 1600) {
        jobs.push(Job::D { p });
    }
    for p in 0..tier.pick(64, 4000) {
        jobs.push(Job::E { p });
    }
    for p in 0..tier.pick(4000, 200_000) {
        jobs.push(Job::F { p });
    }
    for p in 0..tier.pick(24, 240) {
        jobs.push(Job::Z { p });
    }
    for p in 0..tier.pick(7, 70) {
        jobs.push(Job::G { p });
    }
    for p in 0..tier.pick(40, 800) {
        jobs.push(Job::T { p });
    }
    for p in 0..tier.pick(24, 400) {
        jobs.push(Job::U { p });
    }
    for p in 0..tier.pick(48, 800) {
        jobs.push(Job::O { p });
    }
    for p in 0..tier.pick(40, 600) {
        jobs.push(Job::I { p });
    }
    for p in 0..tier.pick(36, 600) {
        jobs.push(Job::K { p });
    }
    for p in 0..tier.pick(12, 120) {
        jobs.push(Job::Y { p: if tier.pick(true, false) && p < 9 { (p * 7 + seed) % 36 } else if tier.pick(true, false) { 36 + p } else { p } });
    }
    for p in 0..tier.pick(400, 8000) {
        jobs.push(Job::S { p });
    }
    for p in 0..tier.pick(24, 400) {
        jobs.push(Job::V { p });
    }
    jobs
}

pub fn job_plane(job: &Job, seed: u64) -> (Plane, &'static [u16]) {
    match job {
        Job::A { ba, sa } => (plane_a(*ba, *sa, 255, 255), &ALL_MODES),
        Job::B { lo, co } => (plane_b(seed, *lo, *co), &ALL_MODES),
        Job::C { p, op } => (plane_c(*p, *op), &HSL_PLUS_NORMAL),
        Job::C2 { p } => (plane_c2(seed, *p), &HSL_PLUS_NORMAL),
        Job::D { p } => (plane_d(seed, *p), &ALL_MODES),
        Job::E { p } => (plane_e(seed, *p), &HSL_PLUS_NORMAL),
        Job::F { .. } => panic!("stack jobs are handled by check_stack"),
        Job::Z { p } => (plane_z(seed, *p), &ALL_MODES),
        Job::G { p } => (plane_g(seed, *p), &ALL_MODES),
        Job::T { p } => (plane_t(seed, *p), &ALL_MODES),
        Job::U { p } => (plane_u(seed, *p), &ALL_MODES),
        Job::O { p } => (plane_o(seed, *p), &ALL_MODES),
        Job::K { p } => (plane_k(seed, *p), &ALL_MODES),
        Job::I { p } => (plane_i(seed, *p), &ALL_MODES),
        Job::Y { p } => (plane_y(seed, *p), &ALL_MODES),
        Job::S { p } => (plane_s(seed, *p), &ALL_MODES),
        Job::V { p } => (plane_v(seed, *p), &ALL_MODES),
    }
}

/// Oracle self-checks; any failure makes the run inconclusive (never a violation).
pub fn oracle_selfcheck(ctx: &Ctx) -> Result<serde_json::Value, String> {
    // 1. MUL_UN8 of the oracle is the exactly rounded product
    for a in 0..=255u8 {
        for b in 0..=255u8 {
            if blendref::mul_un8(a, b) != rounded_product(a, b) {
                return Err(format!("oracle MUL_UN8({},{}) = {} but rounded product = {}", a, b, blendref::mul_un8(a, b), rounded_product(a, b)));
            }
        }
    }
    // 2. oracle reproduces the Aseprite-rendered reference PNGs
    let (files, pixels, mismatches) = crate::corpus::oracle_vs_reference_pngs(ctx)?;
    if mismatches != 0 {
        return Err(format!("blend oracle disagrees with Aseprite-rendered reference PNGs on {} of {} pixels", mismatches, pixels));
    }
    if files < 15 {
        return Err(format!("only {} blend reference files found in the corpus", files));
    }
    Ok(json!({"mul_un8_pairs_checked": 65536, "reference_png_files": files, "reference_png_pixels": pixels, "reference_png_mismatches": mismatches}))
}
