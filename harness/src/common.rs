//! Shared check infrastructure: context, parallel case runner with panic
//! capture, violation / replay files, known findings, evidence writer.

use crate::val::hex;
use serde_json::{json, Value};
use std::cell::RefCell;
use std::collections::{BTreeMap, HashSet};
use std::panic::{catch_unwind, AssertUnwindSafe};
use std::path::PathBuf;
use std::sync::atomic::{AtomicU64, Ordering};
use std::sync::Mutex;
use std::time::Instant;

#[derive(Clone, Copy, Debug, PartialEq, Eq)]
pub enum Tier {
    Quick,
    Thorough,
}

impl Tier {
    pub fn name(self) -> &'static str {
        match self {
            Tier::Quick => "quick",
            Tier::Thorough => "thorough",
        }
    }
    pub fn pick<T>(self, q: T, t: T) -> T {
        match self {
            Tier::Quick => q,
            Tier::Thorough => t,
        }
    }
}

#[derive(Clone, Debug)]
pub struct Ctx {
    pub prop: String,
    pub tier: Tier,
    pub seed: u64,
    pub verif_dir: PathBuf,
    pub repo_dir: PathBuf,
    pub start: Instant,
    pub threads: usize,
    pub replay: Option<PathBuf>,
    pub level: &'static str,
    /// false: run normally but leave the evidence file alone (tool runs such as the TSan build)
    pub write_evidence: bool,
}

impl Ctx {
    pub fn replay_dir(&self) -> PathBuf {
        let d = self.verif_dir.join("replays").join(&self.prop);
        let _ = std::fs::create_dir_all(&d);
        d
    }
    pub fn evidence_path(&self) -> PathBuf {
        let d = self.verif_dir.join("evidence");
        let _ = std::fs::create_dir_all(&d);
        d.join(format!("{}.json", self.prop))
    }
    pub fn corpus_dir(&self) -> PathBuf {
        self.repo_dir.join("tests").join("data")
    }
}

// ---------------------------------------------------------------------------
// panic capture
// ---------------------------------------------------------------------------

#[derive(Clone, Debug, Default)]
pub struct PanicInfo {
    pub message: String,
    pub location: String,
    /// first frame of the backtrace that belongs to the asefile crate
    pub asefile_frame: Option<String>,
    /// whether any frame belongs to the harness proper (between the case closure and the panic)
    pub frames: Vec<String>,
}

thread_local! {
    static LAST_PANIC: RefCell<Option<PanicInfo>> = RefCell::new(None);
    static QUIET: RefCell<bool> = RefCell::new(false);
}

pub fn install_panic_hook() {
    let default = std::panic::take_hook();
    std::panic::set_hook(Box::new(move |info| {
        let quiet = QUIET.with(|q| *q.borrow());
        let message = if let Some(s) = info.payload().downcast_ref::<&str>() {
            s.to_string()
        } else if let Some(s) = info.payload().downcast_ref::<String>() {
            s.clone()
        } else {
            "<non-string panic payload>".to_string()
        };
        let location = info.location().map(|l| format!("{}:{}", l.file(), l.line())).unwrap_or_default();
        let bt = std::backtrace::Backtrace::force_capture().to_string();
        let mut frames = Vec::new();
        for line in bt.lines() {
            let t = line.trim();
            // lines look like "12: asefile::cel::CelsData<P>::validate" / "at /repo/src/cel.rs:265:16"
            if let Some(pos) = t.find(": ") {
                if t[..pos].chars().all(|c| c.is_ascii_digit()) {
                    frames.push(t[pos + 2..].to_string());
                }
            }
        }
        let asefile_frame = frames.iter().find(|f| f.starts_with("asefile::") || f.starts_with("<asefile::")).cloned();
        LAST_PANIC.with(|p| *p.borrow_mut() = Some(PanicInfo { message, location, asefile_frame, frames }));
        if !quiet {
            default(info);
        }
    }));
}

/// Run `f`, capturing a panic (message, first asefile frame) instead of unwinding further.
pub fn guarded<T>(f: impl FnOnce() -> T) -> Result<T, PanicInfo> {
    QUIET.with(|q| *q.borrow_mut() = true);
    LAST_PANIC.with(|p| *p.borrow_mut() = None);
    let r = catch_unwind(AssertUnwindSafe(f));
    QUIET.with(|q| *q.borrow_mut() = false);
    match r {
        Ok(v) => Ok(v),
        Err(_) => Err(LAST_PANIC.with(|p| p.borrow_mut().take()).unwrap_or_default()),
    }
}

/// digits normalised so that a signature survives unrelated value changes
pub fn normalise_digits(s: &str) -> String {
    let mut out = String::with_capacity(s.len());
    let mut in_num = false;
    for c in s.chars() {
        if c.is_ascii_digit() {
            if !in_num {
                out.push('#');
                in_num = true;
            }
        } else {
            in_num = false;
            out.push(c);
        }
    }
    if out.len() > 160 {
        let mut cut = 160;
        while !out.is_char_boundary(cut) {
            cut -= 1;
        }
        out.truncate(cut);
    }
    out
}

/// strip generic parameters and hashes from a frame name
pub fn clean_frame(f: &str) -> String {
    let mut s = f.to_string();
    if let Some(p) = s.rfind("::h") {
        if s[p + 3..].chars().all(|c| c.is_ascii_hexdigit()) && s.len() - p == 19 {
            s.truncate(p);
        }
    }
    // drop generic arguments
    let mut out = String::new();
    let mut depth = 0;
    for c in s.chars() {
        match c {
            '<' => depth += 1,
            '>' => {
                if depth > 0 {
                    depth -= 1
                }
            }
            _ => {
                if depth == 0 {
                    out.push(c)
                }
            }
        }
    }
    if out.is_empty() {
        s
    } else {
        out
    }
}

impl PanicInfo {
    /// The panic was raised by code of the repository (its source location is
    /// inside the repository, or an asefile frame is on the backtrace).
    pub fn in_library(&self) -> bool {
        self.asefile_frame.is_some() || self.repo_file().is_some()
    }
    /// repository-relative source file of the panic location (no line number)
    pub fn repo_file(&self) -> Option<String> {
        let repo = std::env::var("ASEMON_REPO").unwrap_or_else(|_| "/repo".into());
        let file = self.location.rsplit_once(':').map(|x| x.0).unwrap_or(&self.location);
        for root in [repo.as_str(), "/repo"] {
            if let Some(rest) = file.strip_prefix(root) {
                return Some(rest.trim_start_matches('/').to_string());
            }
        }
        None
    }
    /// kind | site | message with digits normalised; the site is the repository
    /// source file of the panic (or the first asefile frame when the panic was
    /// raised inside a dependency). Line numbers are not part of a signature.
    pub fn signature(&self) -> String {
        let site = self.repo_file().or_else(|| self.asefile_frame.as_deref().map(clean_frame)).unwrap_or_else(|| "?".into());
        format!("panic|{}|{}", site, normalise_digits(&self.message))
    }
}

// ---------------------------------------------------------------------------
// violations
// ---------------------------------------------------------------------------

#[derive(Clone, Debug)]
pub struct Violation {
    /// which run_cases stage produced it (needed to replay exactly that case)
    pub stage: String,
    /// stable signature (see DESIGN.md §2)
    pub sig: String,
    pub detail: String,
    pub input: Option<Vec<u8>>,
    pub extra: Value,
}

impl Violation {
    pub fn new(sig: impl Into<String>, detail: impl Into<String>) -> Violation {
        Violation { stage: String::new(), sig: sig.into(), detail: detail.into(), input: None, extra: Value::Null }
    }
    pub fn with_input(mut self, bytes: &[u8]) -> Violation {
        self.input = Some(bytes.to_vec());
        self
    }
    pub fn with_extra(mut self, v: Value) -> Violation {
        self.extra = v;
        self
    }
}

#[derive(Clone, Debug, Default)]
pub struct CaseResult {
    /// hash identifying the case for distinct counting; 0 = do not count
    pub feature: u64,
    pub nontrivial: bool,
    pub leaves: u64,
    /// histogram keys to bump
    pub outcomes: Vec<String>,
    pub violations: Vec<Violation>,
    pub sample: Option<Value>,
    pub inconclusive: Option<String>,
    /// free counters (summed)
    pub counters: Vec<(String, u64)>,
}

impl CaseResult {
    pub fn ok(feature: u64, leaves: u64, outcome: &str) -> CaseResult {
        CaseResult { feature, nontrivial: true, leaves, outcomes: vec![outcome.to_string()], ..Default::default() }
    }
    pub fn count(&mut self, k: &str, v: u64) {
        self.counters.push((k.to_string(), v));
    }
}

#[derive(Debug, Default)]
pub struct Summary {
    pub evaluations: u64,
    pub distinct: HashSet<u64>,
    pub leaves: u64,
    pub outcomes: BTreeMap<String, u64>,
    pub counters: BTreeMap<String, u64>,
    pub violations: Vec<(u64, Violation)>,
    pub violation_sigs: BTreeMap<String, u64>,
    pub samples: Vec<Value>,
    pub inconclusive: Vec<String>,
}

impl Summary {
    pub fn absorb(&mut self, idx: u64, r: CaseResult) {
        self.evaluations += 1;
        if r.nontrivial && r.feature != 0 {
            self.distinct.insert(r.feature);
        }
        self.leaves += r.leaves;
        for o in r.outcomes {
            *self.outcomes.entry(o).or_insert(0) += 1;
        }
        for (k, v) in r.counters {
            *self.counters.entry(k).or_insert(0) += v;
        }
        for v in r.violations {
            let c = self.violation_sigs.entry(v.sig.clone()).or_insert(0);
            *c += 1;
            if *c == 1 && self.violations.len() < 40 {
                self.violations.push((idx, v));
            }
        }
        if let Some(s) = r.sample {
            if self.samples.len() < 4 {
                self.samples.push(s);
            }
        }
        if let Some(i) = r.inconclusive {
            if self.inconclusive.len() < 10 {
                self.inconclusive.push(i);
            }
        }
    }
    pub fn merge(&mut self, other: Summary) {
        self.evaluations += other.evaluations;
        self.distinct.extend(other.distinct);
        self.leaves += other.leaves;
        for (k, v) in other.outcomes {
            *self.outcomes.entry(k).or_insert(0) += v;
        }
        for (k, v) in other.counters {
            *self.counters.entry(k).or_insert(0) += v;
        }
        for (i, v) in other.violations {
            let first = !self.violations.iter().any(|(_, x)| x.sig == v.sig);
            if first && self.violations.len() < 40 {
                self.violations.push((i, v));
            }
        }
        for (k, v) in other.violation_sigs {
            *self.violation_sigs.entry(k).or_insert(0) += v;
        }
        for s in other.samples {
            if self.samples.len() < 4 {
                self.samples.push(s);
            }
        }
        for s in other.inconclusive {
            if self.inconclusive.len() < 10 {
                self.inconclusive.push(s);
            }
        }
    }
}

/// Run cases `0..n` on `ctx.threads` threads. A panic escaping the case
/// closure is classified: inside asefile => violation; otherwise harness error
/// => inconclusive.
pub fn run_cases<F>(ctx: &Ctx, n: u64, f: F) -> Summary
where
    F: Fn(u64) -> CaseResult + Sync,
{
    run_stage(ctx, "main", n, f)
}

/// (stage, case index) recorded in a replay file
pub fn replay_target(ctx: &Ctx) -> Option<(String, u64)> {
    let p = ctx.replay.as_ref()?;
    let t = std::fs::read_to_string(p).ok()?;
    let v: Value = serde_json::from_str(&t).ok()?;
    Some((v.get("stage").and_then(|x| x.as_str()).unwrap_or("main").to_string(), v.get("case_index").and_then(|x| x.as_u64()).unwrap_or(0)))
}

/// Like `run_cases`, for checks with several stages. In replay mode only the
/// recorded (stage, case index) is executed.
pub fn run_stage<F>(ctx: &Ctx, stage: &str, n: u64, f: F) -> Summary
where
    F: Fn(u64) -> CaseResult + Sync,
{
    if ctx.replay.is_some() {
        let mut total = Summary::default();
        if let Some((st, idx)) = replay_target(ctx) {
            if st == stage && idx < n {
                match guarded(|| f(idx)) {
                    Ok(mut cr) => {
                        for v in cr.violations.iter_mut() {
                            v.stage = stage.to_string();
                        }
                        total.absorb(idx, cr)
                    }
                    Err(p) => {
                        let mut cr = CaseResult::default();
                        if p.in_library() {
                            let mut v = Violation::new(p.signature(), format!("case {}: library panicked: {} at {}", idx, p.message, p.location));
                            v.stage = stage.to_string();
                            cr.violations.push(v);
                        } else {
                            cr.inconclusive = Some(format!("harness panic: {} at {}", p.message, p.location));
                        }
                        total.absorb(idx, cr)
                    }
                }
            }
        }
        return total;
    }
    let next = AtomicU64::new(0);
    let total = Mutex::new(Summary::default());
    let threads = ctx.threads.max(1);
    std::thread::scope(|s| {
        for _ in 0..threads {
            s.spawn(|| {
                let mut local = Summary::default();
                loop {
                    let i = next.fetch_add(1, Ordering::Relaxed);
                    if i >= n {
                        break;
                    }
                    let r = guarded(|| f(i));
                    match r {
                        Ok(mut cr) => {
                            for v in cr.violations.iter_mut() {
                                v.stage = stage.to_string();
                            }
                            local.absorb(i, cr)
                        }
                        Err(p) => {
                            let mut cr = CaseResult::default();
                            if p.in_library() {
                                cr.outcomes.push("library-panic".into());
                                let mut v = Violation::new(p.signature(), format!("case {}: library panicked: {} at {} (first library frame {:?})", i, p.message, p.location, p.asefile_frame)).with_extra(json!({"case_index": i}));
                                v.stage = stage.to_string();
                                cr.violations.push(v);
                            } else {
                                cr.outcomes.push("harness-panic".into());
                                cr.inconclusive = Some(format!("case {}: harness panic: {} at {}", i, p.message, p.location));
                            }
                            local.absorb(i, cr)
                        }
                    }
                }
                total.lock().unwrap().merge(local);
            });
        }
    });
    total.into_inner().unwrap()
}

// ---------------------------------------------------------------------------
// known findings
// ---------------------------------------------------------------------------

#[derive(Clone, Debug)]
pub struct Finding {
    pub property: String,
    pub status: String,
    pub signature: String,
    pub what: String,
}

pub fn load_findings(ctx: &Ctx) -> Vec<Finding> {
    let p = ctx.verif_dir.join("known_findings.json");
    let txt = match std::fs::read_to_string(&p) {
        Ok(t) => t,
        Err(_) => return vec![],
    };
    let v: Value = match serde_json::from_str(&txt) {
        Ok(v) => v,
        Err(_) => return vec![],
    };
    let mut out = vec![];
    if let Some(arr) = v.get("findings").and_then(|x| x.as_array()) {
        for e in arr {
            out.push(Finding {
                property: e.get("property").and_then(|x| x.as_str()).unwrap_or("").to_string(),
                status: e.get("status").and_then(|x| x.as_str()).unwrap_or("").to_string(),
                signature: e.get("signature").and_then(|x| x.as_str()).unwrap_or("").to_string(),
                what: e.get("what").and_then(|x| x.as_str()).unwrap_or("").to_string(),
            });
        }
    }
    out
}

// ---------------------------------------------------------------------------
// finishing: replays, verdict lines, evidence
// ---------------------------------------------------------------------------

fn safe_name(sig: &str) -> String {
    let h = crate::rng::hash_str(sig);
    let mut s: String = sig.chars().map(|c| if c.is_ascii_alphanumeric() { c } else { '_' }).collect();
    s.truncate(60);
    format!("{}-{:08x}", s, (h & 0xffff_ffff) as u32)
}

pub fn write_replay(ctx: &Ctx, idx: u64, v: &Violation) -> PathBuf {
    let dir = ctx.replay_dir();
    let base = safe_name(&v.sig);
    let path = dir.join(format!("{}.json", base));
    let mut doc = json!({
        "property": ctx.prop,
        "tier": ctx.tier.name(),
        "seed": ctx.seed,
        "case_index": idx,
        "stage": if v.stage.is_empty() { "main" } else { v.stage.as_str() },
        "signature": v.sig,
        "detail": v.detail,
        "extra": v.extra,
    });
    if let Some(inp) = &v.input {
        if inp.len() <= 64 * 1024 {
            doc["input_hex"] = Value::String(hex(inp));
        } else {
            let side = dir.join(format!("{}.ase", base));
            let _ = std::fs::write(&side, inp);
            doc["input_file"] = Value::String(side.display().to_string());
        }
        doc["input_len"] = json!(inp.len());
    }
    let _ = std::fs::write(&path, serde_json::to_string_pretty(&doc).unwrap());
    path
}

pub struct Finish {
    pub rule: String,
    pub coverage_extra: Value,
    pub assumptions: Vec<String>,
    pub exhaustive: bool,
    /// minimum number of evaluations below which the run is inconclusive
    pub min_evaluations: u64,
}

/// Prints verdict lines, writes evidence, returns the process exit code.
pub fn finish(ctx: &Ctx, sum: Summary, fin: Finish) -> i32 {
    let findings = load_findings(ctx);
    let mut new_violations = 0u64;
    let mut known = 0u64;
    let mut lines: Vec<String> = Vec::new();
    let mut known_seen: HashSet<String> = HashSet::new();
    for (idx, v) in &sum.violations {
        let listed = findings.iter().find(|f| f.property == ctx.prop && f.status == "finding" && f.signature == v.sig);
        if let Some(f) = listed {
            known += 1;
            if known_seen.insert(f.signature.clone()) {
                lines.push(format!("KNOWN-FINDING: property={} {} [{}]", ctx.prop, f.what, f.signature));
            }
        } else {
            new_violations += 1;
            let path = write_replay(ctx, *idx, v);
            lines.push(format!("VIOLATION property={} replay={}", ctx.prop, path.display()));
            lines.push(format!("  signature: {}", v.sig));
            lines.push(format!("  detail: {}", v.detail));
        }
    }
    let wall = ctx.start.elapsed().as_secs_f64();
    let replaying = ctx.replay.is_some();
    let inconclusive = !sum.inconclusive.is_empty() || (!replaying && (sum.evaluations < fin.min_evaluations.max(1) || sum.distinct.len() < 2)) || (replaying && sum.evaluations == 0);
    let mut coverage = json!({
        "evaluations": sum.evaluations,
        "distinct_nontrivial": sum.distinct.len(),
        "rule": fin.rule,
        "samples": sum.samples,
        "observations_compared": sum.leaves,
        "outcomes": sum.outcomes,
        "counters": sum.counters,
        "violation_signatures": sum.violation_sigs,
        "known_findings_seen": known,
        "exhaustive": fin.exhaustive,
        "threads": ctx.threads,
    });
    if let (Some(obj), Some(extra)) = (coverage.as_object_mut(), fin.coverage_extra.as_object()) {
        for (k, v) in extra {
            obj.insert(k.clone(), v.clone());
        }
    }
    if !sum.inconclusive.is_empty() {
        coverage["inconclusive_reasons"] = json!(sum.inconclusive);
    }
    let ev = json!({
        "property_id": ctx.prop,
        "tier": ctx.tier.name(),
        "seed": ctx.seed,
        "level": ctx.level,
        "coverage": coverage,
        "assumptions": fin.assumptions,
        "wall_s": (wall * 1000.0).round() / 1000.0,
        "violations": new_violations,
        "verdict": if new_violations > 0 { "violated" } else if inconclusive { "inconclusive" } else { "held-on-observed" },
    });
    if ctx.replay.is_none() && ctx.write_evidence {
        let _ = std::fs::write(ctx.evidence_path(), serde_json::to_string_pretty(&ev).unwrap());
    }
    println!(
        "[{}] tier={} seed={} evaluations={} distinct={} observations={} wall={:.1}s",
        ctx.prop,
        ctx.tier.name(),
        ctx.seed,
        sum.evaluations,
        sum.distinct.len(),
        sum.leaves,
        wall
    );
    for (k, v) in &sum.outcomes {
        println!("  outcome {:<40} {}", k, v);
    }
    for (k, v) in &sum.counters {
        println!("  counter {:<40} {}", k, v);
    }
    for l in &lines {
        println!("{}", l);
    }
    if new_violations > 0 {
        return 1;
    }
    if inconclusive {
        for r in &sum.inconclusive {
            println!("INCONCLUSIVE property={} reason={}", ctx.prop, r);
        }
        if sum.inconclusive.is_empty() {
            println!("INCONCLUSIVE property={} reason=too few events observed (evaluations={}, distinct={})", ctx.prop, sum.evaluations, sum.distinct.len());
        }
        return 2;
    }
    println!("[{}] held on everything explored", ctx.prop);
    0
}
