//! Helpers shared by the checks: loading, model-vs-API comparison.

use crate::common::*;
use crate::encode::encode;
use crate::expect::expect;
use crate::model::*;
use crate::observe::{observe, ObsOpts};
use crate::program::{compile_with, PaletteProgram, Variation};
use crate::rng::Rng;
use crate::val::diff;
use asefile::{AsepriteFile, AsepriteParseError};
use serde_json::json;

pub fn load(bytes: &[u8]) -> Result<AsepriteFile, AsepriteParseError> {
    AsepriteFile::read(bytes)
}

pub fn err_sig(e: &AsepriteParseError) -> String {
    match e {
        AsepriteParseError::InvalidInput(m) => format!("InvalidInput({})", normalise_digits(m)),
        AsepriteParseError::UnsupportedFeature(m) => format!("UnsupportedFeature({})", normalise_digits(m)),
        AsepriteParseError::InternalError(m) => format!("InternalError({})", normalise_digits(m)),
        AsepriteParseError::IoError(e) => format!("IoError({:?})", e.kind()),
    }
}

pub fn err_variant(e: &AsepriteParseError) -> &'static str {
    match e {
        AsepriteParseError::InvalidInput(_) => "Err(InvalidInput)",
        AsepriteParseError::UnsupportedFeature(_) => "Err(UnsupportedFeature)",
        AsepriteParseError::InternalError(_) => "Err(InternalError)",
        AsepriteParseError::IoError(_) => "Err(IoError)",
    }
}

pub fn sprite_summary(sp: &Sprite) -> serde_json::Value {
    json!({
        "canvas": [sp.width, sp.height], "format": sp.fmt.name(), "transparent_index": sp.transparent_index,
        "frames": sp.durations.len(), "layers": sp.layers.iter().map(|l| format!("{:?}/lv{}/blend{}/op{}/flags{:#x}", l.kind, l.level, l.blend, l.opacity, l.flags)).collect::<Vec<_>>(),
        "cels": sp.cels.iter().take(12).map(|((f,l),c)| format!("f{} l{} @({},{}) op{} {}", f, l, c.x, c.y, c.opacity, match &c.content { CelContentM::Image{w,h,..} => format!("image {}x{}", w, h), CelContentM::Link(t) => format!("link->{}", t), CelContentM::Tilemap{w,h,..} => format!("tilemap {}x{}", w, h)})).collect::<Vec<_>>(),
        "n_cels": sp.cels.len(), "tags": sp.tags.len(), "slices": sp.slices.len(), "ext_files": sp.ext_files.len(),
        "tilesets": sp.tilesets.iter().map(|t| format!("id{} {}x{} x{}", t.id, t.tw, t.th, t.count)).collect::<Vec<_>>(),
        "palette": sp.palette.as_ref().map(|p| format!("{} entries from {}", p.len(), p.keys().next().cloned().unwrap_or(0))),
    })
}

/// Encode `sp` under variation `v`, load it, compare `observe` with `expect`.
/// Returns (bytes, leaves compared, optional violation).
pub fn roundtrip(sp: &Sprite, palprog: &PaletteProgram, rng: &mut Rng, v: &Variation, opts: &ObsOpts, what: &str) -> (Vec<u8>, u64, Option<Violation>) {
    let spec = compile_with(sp, rng, v, palprog);
    let (bytes, _map) = encode(&spec);
    let ase = match load(&bytes) {
        Ok(a) => a,
        Err(e) => {
            let viol = Violation::new(format!("load-failed|{}|{}", what, err_sig(&e)), format!("well-formed sprite ({}) failed to load: {}", v.describe(), e)).with_input(&bytes).with_extra(json!({"model": sprite_summary(sp), "variation": v.describe()}));
            return (bytes, 0, Some(viol));
        }
    };
    let obs = observe(&ase, opts);
    let exp = expect(sp, opts);
    let leaves = exp.leaves();
    let viol = diff(&obs, &exp).map(|d| {
        // signature: kind | what | path with indices normalised
        Violation::new(format!("mismatch|{}|{}", what, normalise_digits(&d.path)), format!("{} ({})", d, v.describe())).with_input(&bytes).with_extra(json!({"model": sprite_summary(sp), "variation": v.describe(), "path": d.path, "observed": d.observed, "expected": d.expected}))
    });
    (bytes, leaves, viol)
}
