//! Abstract sprite model (`Sprite`: what a file *means*) and file program
//! (`FileSpec`: one concrete chunk sequence with all encoding choices made).

use std::collections::BTreeMap;

#[derive(Clone, Copy, Debug, PartialEq, Eq)]
pub enum Fmt {
    Rgba,
    Gray,
    Indexed,
}

impl Fmt {
    pub fn bpp(self) -> usize {
        match self {
            Fmt::Rgba => 4,
            Fmt::Gray => 2,
            Fmt::Indexed => 1,
        }
    }
    pub fn depth(self) -> u16 {
        (self.bpp() * 8) as u16
    }
    pub fn name(self) -> &'static str {
        match self {
            Fmt::Rgba => "rgba",
            Fmt::Gray => "gray",
            Fmt::Indexed => "indexed",
        }
    }
}

#[derive(Clone, Debug, PartialEq)]
pub struct UserDataM {
    pub text: Option<String>,
    pub color: Option<[u8; 4]>,
}

#[derive(Clone, Copy, Debug, PartialEq, Eq)]
pub enum LayerKind {
    Image,
    Group,
    Tilemap(u32),
}

pub const LF_VISIBLE: u16 = 1;
pub const LF_BACKGROUND: u16 = 8;

#[derive(Clone, Debug, PartialEq)]
pub struct LayerM {
    pub flags: u16,
    pub kind: LayerKind,
    pub level: u16,
    pub blend: u16,
    pub opacity: u8,
    pub name: String,
    pub ud: Option<UserDataM>,
}

impl LayerM {
    pub fn image(name: &str) -> LayerM {
        LayerM { flags: 3, kind: LayerKind::Image, level: 0, blend: 0, opacity: 255, name: name.to_string(), ud: None }
    }
    pub fn is_background(&self) -> bool {
        self.flags & LF_BACKGROUND != 0
    }
}

#[derive(Clone, Debug, PartialEq)]
pub enum CelContentM {
    /// pixel bytes in the sprite's pixel format, row-major, w*h*bpp long
    Image { w: u16, h: u16, pixels: Vec<u8> },
    Link(u16),
    /// 32-bit tile words, row-major, w*h long
    Tilemap { w: u16, h: u16, tiles: Vec<u32>, masks: [u32; 4] },
}

#[derive(Clone, Debug, PartialEq)]
pub struct CelM {
    pub x: i16,
    pub y: i16,
    pub opacity: u8,
    pub content: CelContentM,
    pub ud: Option<UserDataM>,
}

#[derive(Clone, Debug, PartialEq)]
pub struct TagM {
    pub from: u16,
    pub to: u16,
    pub dir: u8,
    pub repeat: u16,
    pub color: u32,
    pub name: String,
    pub ud: Option<UserDataM>,
}

#[derive(Clone, Debug, PartialEq)]
pub struct SliceKeyM {
    pub frame: u32,
    pub x: i32,
    pub y: i32,
    pub w: u32,
    pub h: u32,
    pub center: Option<(i32, i32, u32, u32)>,
    pub pivot: Option<(i32, i32)>,
}

#[derive(Clone, Debug, PartialEq)]
pub struct SliceM {
    pub name: String,
    /// bit0: 9-slice, bit1: pivot (every key carries what the flags say)
    pub flags: u32,
    pub keys: Vec<SliceKeyM>,
    pub ud: Option<UserDataM>,
}

#[derive(Clone, Debug, PartialEq)]
pub struct PalEntryM {
    pub rgba: [u8; 4],
    pub name: Option<String>,
}

#[derive(Clone, Debug, PartialEq)]
pub struct ExtFileM {
    pub id: u32,
    pub name: String,
}

pub const TS_LINK: u32 = 1;
pub const TS_EMBED: u32 = 2;
pub const TS_ZERO_EMPTY: u32 = 4;

#[derive(Clone, Debug, PartialEq)]
pub struct TilesetM {
    pub id: u32,
    pub flags: u32,
    pub count: u32,
    pub tw: u16,
    pub th: u16,
    pub base_index: i16,
    pub name: String,
    pub ext: Option<(u32, u32)>,
    /// count*tw*th*bpp bytes in the sprite's pixel format
    pub pixels: Vec<u8>,
}

#[derive(Clone, Debug, PartialEq)]
pub struct Sprite {
    pub width: u16,
    pub height: u16,
    pub fmt: Fmt,
    pub transparent_index: u8,
    /// frame durations
    pub durations: Vec<u16>,
    pub layers: Vec<LayerM>,
    /// (frame, layer) -> cel
    pub cels: BTreeMap<(u16, u16), CelM>,
    pub tags: Vec<TagM>,
    pub slices: Vec<SliceM>,
    /// palette entries by index (None: no palette chunk at all)
    pub palette: Option<BTreeMap<u32, PalEntryM>>,
    pub ext_files: Vec<ExtFileM>,
    pub tilesets: Vec<TilesetM>,
    /// attaches to a legacy palette chunk, so a program carrying it needs one
    pub sprite_ud: Option<UserDataM>,
    /// how the tags are grouped into tags chunks (sizes, in order; empty = one chunk). Within each chunk the tags
    /// that have user data form a prefix of that chunk's tags.
    pub tag_chunks: Vec<usize>,
}

impl Sprite {
    pub fn blank(width: u16, height: u16, fmt: Fmt, frames: usize) -> Sprite {
        Sprite {
            width,
            height,
            fmt,
            transparent_index: 0,
            durations: vec![100; frames],
            layers: vec![],
            cels: BTreeMap::new(),
            tags: vec![],
            slices: vec![],
            palette: None,
            ext_files: vec![],
            tilesets: vec![],
            sprite_ud: None,
            tag_chunks: vec![],
        }
    }
    pub fn num_frames(&self) -> usize {
        self.durations.len()
    }
    /// Parent of each layer per the nesting-level rule (nearest preceding layer with smaller level).
    pub fn parents(&self) -> Vec<Option<usize>> {
        let mut out = Vec::with_capacity(self.layers.len());
        for i in 0..self.layers.len() {
            let lv = self.layers[i].level;
            let mut p = None;
            if lv > 0 {
                let mut j = i;
                while j > 0 {
                    j -= 1;
                    if self.layers[j].level < lv {
                        p = Some(j);
                        break;
                    }
                }
            }
            out.push(p);
        }
        out
    }
    pub fn visible(&self) -> Vec<bool> {
        let parents = self.parents();
        let mut out: Vec<bool> = Vec::with_capacity(self.layers.len());
        for i in 0..self.layers.len() {
            let own = self.layers[i].flags & LF_VISIBLE != 0;
            let anc = match parents[i] {
                Some(p) => out[p],
                None => true,
            };
            out.push(own && anc);
        }
        out
    }
    pub fn tileset(&self, id: u32) -> Option<&TilesetM> {
        // a later tileset chunk with the same id replaces the earlier one
        self.tilesets.iter().rev().find(|t| t.id == id)
    }
    /// resolve link (one level)
    pub fn resolve(&self, f: u16, l: u16) -> Option<&CelM> {
        let c = self.cels.get(&(f, l))?;
        match c.content {
            CelContentM::Link(t) => self.cels.get(&(t, l)),
            _ => Some(c),
        }
    }
}

// ---------------------------------------------------------------------------
// File program
// ---------------------------------------------------------------------------

#[derive(Clone, Debug, PartialEq)]
pub enum Storage {
    Raw,
    Zlib(u32),
    /// hand-made zlib stream of stored (uncompressed) deflate blocks of at most `block` bytes
    Stored(usize),
    /// the same with a zlib header announcing a window of 2^(8+wbits) bytes, wbits in 0..=7
    StoredWin(usize, u8),
}

#[derive(Clone, Debug, PartialEq)]
pub struct HeaderSpec {
    pub file_size: Option<u32>,
    pub magic: u16,
    pub frames: u16,
    pub width: u16,
    pub height: u16,
    pub depth: u16,
    pub flags: u32,
    pub speed: u16,
    pub ph1: u32,
    pub ph2: u32,
    pub transparent_index: u8,
    pub ignore: [u8; 3],
    pub num_colors: u16,
    pub pixel_w: u8,
    pub pixel_h: u8,
    pub grid: [u16; 4],
    pub reserved: Vec<u8>, // 84 bytes
}

#[derive(Clone, Copy, Debug, PartialEq)]
pub enum CountStyle {
    /// old = n, new = n
    Both,
    /// old = n, new = 0
    OldOnly,
    /// old = 0xFFFF, new = n
    NewOnly,
}

#[derive(Clone, Debug, PartialEq)]
pub struct LayerJunk {
    pub default_w: u16,
    pub default_h: u16,
    pub r1: u8,
    pub r2: u16,
}

#[derive(Clone, Debug, PartialEq)]
pub struct PalChunkEntry {
    pub flags_extra: u16, // bits other than bit0 (bit0 derived from name)
    pub rgba: [u8; 4],
    pub name: Option<String>,
}

#[derive(Clone, Debug, PartialEq)]
pub enum ChunkSpec {
    Layer { l: LayerM, junk: LayerJunk },
    Cel { layer: u16, c: CelM, storage: Storage, reserved: [u8; 7], cel_type_override: Option<u16> },
    Slice { s: SliceM, reserved: u32 },
    Tags { tags: Vec<TagM>, reserved: [u8; 8], tag_reserved: [u8; 6] },
    Palette { total: u32, first: u32, entries: Vec<PalChunkEntry>, reserved: [u8; 8] },
    OldPalette { kind: u16, packets: Vec<(u8, Vec<[u8; 3]>)> },
    UserData(UserDataM),
    ExtFiles { files: Vec<ExtFileM>, reserved: [u8; 8] },
    Tileset { t: TilesetM, level: u32, reserved: [u8; 14] },
    ColorProfile { ty: u16, flags: u16, gamma: u32, icc: Option<Vec<u8>> },
    CelExtra,
    Mask,
    Path,
    /// an ignorable chunk (0x2006 / 0x2016 / 0x2017) with an arbitrary payload
    Ignorable { ty: u16, data: Vec<u8> },
    Raw { ty: u16, data: Vec<u8> },
}

impl ChunkSpec {
    pub fn kind_name(&self) -> &'static str {
        match self {
            ChunkSpec::Layer { .. } => "layer",
            ChunkSpec::Cel { .. } => "cel",
            ChunkSpec::Slice { .. } => "slice",
            ChunkSpec::Tags { .. } => "tags",
            ChunkSpec::Palette { .. } => "palette",
            ChunkSpec::OldPalette { kind, .. } => {
                if *kind == 4 {
                    "oldpal04"
                } else {
                    "oldpal11"
                }
            }
            ChunkSpec::UserData(_) => "userdata",
            ChunkSpec::ExtFiles { .. } => "extfiles",
            ChunkSpec::Tileset { .. } => "tileset",
            ChunkSpec::ColorProfile { .. } => "profile",
            ChunkSpec::CelExtra => "celextra",
            ChunkSpec::Mask => "mask",
            ChunkSpec::Path => "path",
            ChunkSpec::Ignorable { .. } => "ignorable",
            ChunkSpec::Raw { .. } => "raw",
        }
    }
}

#[derive(Clone, Debug, PartialEq)]
pub struct ChunkItem {
    pub spec: ChunkSpec,
    /// extra bytes appended inside the chunk (counted in its size)
    pub pad: Vec<u8>,
    /// user-data chunks: bits set in the flags word beyond the three the format defines (1 text, 2 colour, 4 properties)
    pub flag_junk: u32,
    /// layer chunks: the opacity byte to write instead of the model's (only meaningful when the header says
    /// that layer opacities are not valid, i.e. the byte is an unused field)
    pub opacity_override: Option<u8>,
}

impl From<ChunkSpec> for ChunkItem {
    fn from(spec: ChunkSpec) -> Self {
        ChunkItem { spec, pad: vec![], flag_junk: 0, opacity_override: None }
    }
}

#[derive(Clone, Debug, PartialEq)]
pub struct FrameSpec {
    pub duration: u16,
    pub count_style: CountStyle,
    pub reserved: u16,
    pub chunks: Vec<ChunkItem>,
    /// overrides for hostile files
    pub bytes_override: Option<u32>,
    pub magic: u16,
}

impl FrameSpec {
    pub fn new(duration: u16) -> FrameSpec {
        FrameSpec { duration, count_style: CountStyle::Both, reserved: 0, chunks: vec![], bytes_override: None, magic: 0xF1FA }
    }
}

#[derive(Clone, Debug, PartialEq)]
pub struct FileSpec {
    pub header: HeaderSpec,
    pub frames: Vec<FrameSpec>,
    /// bytes after the last frame
    pub trailer: Vec<u8>,
    pub fmt: Fmt,
}
