//! Probe machinery of C16 that does not need `AsepriteFile: Sync` to compile
//! (the threaded part lives in src/bin/asemon_c16.rs).

use crate::observe::{self, ObsOpts};
use crate::val::{Img, V};
use crate::walk::Sink;
use asefile::AsepriteFile;
use std::fmt::Write;

/// A keyed probe: any later value is compared with its key's reference value.
#[derive(Clone, Debug)]
pub enum Probe {
    Structure,
    Cels,
    FrameImage(u32),
    CelImage(u32, u32),
    Tilemaps,
    TilesetImages,
    /// Debug text: compared only within one instance (hash order may differ across loads)
    DebugText,
    LayerVisible(u32),
    TileLookup(u32, u32, u32, u32),
    /// `tag_by_name(name of tag k)` as one call of its own (so that lookups happen in every order)
    TagByName(u32),
    LayerByName(u32),
    NameMissing,
}

impl Probe {
    pub fn key(&self) -> String {
        format!("{:?}", self)
    }
    pub fn cross_load(&self) -> bool {
        !matches!(self, Probe::DebugText)
    }
    pub fn eval(&self, ase: &AsepriteFile) -> u64 {
        match self {
            Probe::Structure => observe::structure(ase, &ObsOpts::structure_only()).digest(),
            Probe::Cels => observe::cels(ase, false).digest(),
            Probe::FrameImage(f) => V::Img(Img::from_rgba(&ase.frame(*f).image(), false)).digest(),
            Probe::CelImage(f, l) => V::Img(Img::from_rgba(&ase.cel(*f, *l).image(), false)).digest(),
            Probe::Tilemaps => observe::tilemaps(ase, true).digest(),
            Probe::TilesetImages => observe::tileset_images(ase).digest(),
            Probe::DebugText => {
                let mut s = HashSink(0xcbf29ce484222325, 0);
                let _ = write!(s, "{:?}", ase);
                let _ = Sink(0, 0);
                crate::rng::mix(s.0 ^ s.1)
            }
            Probe::LayerVisible(l) => {
                let ly = ase.layer(*l);
                (ly.is_visible() as u64) << 32 | ly.parent().map(|p| p.id() as u64 + 1).unwrap_or(0)
            }
            Probe::TileLookup(l, f, x, y) => ase.tilemap(*l, *f).map(|t| t.tile(*x, *y).id() as u64 + 1).unwrap_or(0),
            Probe::TagByName(k) => {
                let name = ase.tag(*k).name().to_string();
                ase.tag_by_name(&name).map(|t| (t.from_frame() as u64) << 40 | (t.to_frame() as u64) << 16 | t.name().len() as u64 + 1).unwrap_or(0)
            }
            Probe::LayerByName(k) => {
                let name = ase.layer(*k).name().to_string();
                ase.layer_by_name(&name).map(|l| l.id() as u64 + 1).unwrap_or(0)
            }
            Probe::NameMissing => (ase.tag_by_name("\u{1}no such tag").is_some() as u64) << 1 | ase.layer_by_name("\u{1}no such layer").is_some() as u64,
        }
    }
}

struct HashSink(u64, u64);
impl Write for HashSink {
    fn write_str(&mut self, s: &str) -> std::fmt::Result {
        for b in s.bytes() {
            self.0 ^= b as u64;
            self.0 = self.0.wrapping_mul(0x100000001b3);
        }
        self.1 += s.len() as u64;
        Ok(())
    }
}

pub fn probes_for(ase: &AsepriteFile) -> Vec<Probe> {
    let mut v = vec![Probe::Structure, Probe::Cels, Probe::Tilemaps, Probe::TilesetImages, Probe::DebugText];
    let nf = ase.num_frames().min(6);
    let nl = ase.num_layers().min(6);
    for f in 0..nf {
        v.push(Probe::FrameImage(f));
        for l in 0..nl {
            v.push(Probe::CelImage(f, l));
        }
    }
    for k in 0..ase.num_tags().min(24) {
        v.push(Probe::TagByName(k));
    }
    for k in 0..ase.num_layers().min(12) {
        v.push(Probe::LayerByName(k));
    }
    v.push(Probe::NameMissing);
    for l in 0..nl {
        v.push(Probe::LayerVisible(l));
        for f in 0..nf {
            if ase.tilemap(l, f).is_some() {
                v.push(Probe::TileLookup(l, f, 0, 0));
                v.push(Probe::TileLookup(l, f, 1, 2));
                v.push(Probe::TileLookup(l, f, u32::MAX, 7));
            }
        }
    }
    v
}
