//! Worker / supervisor protocol for anything that may abort the process
//! (allocation failure, stack overflow): C04, C05, C12.
//!
//! worker stdout:  B <base> <sub>            before an input is run
//!                 E <base> <sub> <code> ..  after it returned (code = outcome)
//!                 V <base> <sub> <json>     a violation observed in-process
//!                 A <bytes>                 (raw write by the allocator) oversized request
//!                 D <base>                  base finished
//! A worker that dies is attributed to its last B line; the supervisor records
//! signal + stderr tail and restarts the stripe after that input.

use crate::allocmon;
use crate::common::*;
use crate::hostile::{self, Base, Input};
use crate::rng::Rng;
use crate::util::*;
use crate::walk;
use serde_json::{json, Value};
use std::collections::BTreeMap;
use std::io::{BufRead, BufReader, Read, Write};
use std::process::{Command, Stdio};

#[derive(Clone, Copy, Debug, PartialEq, Eq)]
pub enum Mode {
    Load,
    Walk,
    Mem,
    /// outcome digest per input (C16 cross-profile comparison)
    Digest,
}

impl Mode {
    pub fn name(self) -> &'static str {
        match self {
            Mode::Load => "load",
            Mode::Walk => "walk",
            Mode::Mem => "mem",
            Mode::Digest => "digest",
        }
    }
    pub fn parse(s: &str) -> Mode {
        match s {
            "walk" => Mode::Walk,
            "mem" => Mode::Mem,
            "digest" => Mode::Digest,
            _ => Mode::Load,
        }
    }
}

#[derive(Clone, Debug)]
pub struct Plan {
    pub mode: Mode,
    pub seed: u64,
    pub tier: Tier,
    pub generated_bases: u64,
    pub corpus: bool,
    pub size_cap: usize,
}

impl Plan {
    pub fn total_bases(&self, ncorpus: u64) -> u64 {
        self.generated_bases + if self.corpus { ncorpus + GIANT_BASES } else { 0 }
    }
}

/// structural giants appended after the corpus bases (see giants.rs)
pub const GIANT_BASES: u64 = 10;

pub const MEM_FIXED: u64 = 64 * 1024 * 1024;
pub const MEM_PER_BYTE: u64 = 8192;

pub fn mem_bound(len: usize) -> u64 {
    MEM_FIXED + MEM_PER_BYTE * len as u64
}

/// Deterministic enumeration of the inputs derived from base `b`.
pub fn inputs_of_base(plan: &Plan, b: u64, corpus: &[(String, Vec<u8>)]) -> Vec<Input> {
    let mut rng = Rng::derive(plan.seed, "hostile-inputs", b);
    let thorough = plan.tier == Tier::Thorough;
    let base: Base = if b < plan.generated_bases {
        hostile::generated_base(plan.seed, b)
    } else if b >= plan.generated_bases + corpus.len() as u64 {
        // structural giants: unmodified, plus a little random damage (field enumeration would be millions of inputs)
        let files = crate::giants::giant_files();
        let k = (b - plan.generated_bases - corpus.len() as u64) as usize;
        let (name, bytes) = match files.get(k) {
            Some(f) => f.clone(),
            None => return vec![],
        };
        let mut out = vec![Input { operator: "wellformed:giant".into(), label: format!("{}: unmodified ({} bytes)", name, bytes.len()), bytes: bytes.clone() }];
        if let Some(gb) = hostile::corpus_base(&name, bytes) {
            out.extend(hostile::multi_field_inputs(&gb, &mut rng, 24));
            if plan.mode != Mode::Mem {
                out.extend(hostile::unstructured_inputs(&gb, &mut rng, 24));
            }
        }
        out.retain(|i| i.bytes.len() <= 4 * 1024 * 1024);
        return out;
    } else {
        let (name, bytes) = &corpus[(b - plan.generated_bases) as usize];
        if bytes.len() > plan.size_cap {
            return vec![];
        }
        match hostile::corpus_base(name, bytes.clone()) {
            Some(b) => b,
            None => return vec![],
        }
    };
    let mut out: Vec<Input> = Vec::new();
    // the untouched base itself
    out.push(Input { operator: "wellformed".into(), label: format!("{}: unmodified", base.name), bytes: base.bytes.clone() });
    if (plan.mode == Mode::Digest || plan.mode == Mode::Walk) && b < plan.generated_bases {
        // cross-profile comparison / accessor walk: well-formed sprites whose sizes / counts exceed 255 and 65535
        // (arithmetic that only wraps for large but valid values)
        for k in 0..if plan.mode == Mode::Digest { 40u64 } else { 8 } {
            let mut r = Rng::derive(plan.seed, "digest-big", b * 64 + k);
            let mut cfg = crate::gen::GenCfg::small();
            cfg.max_w = 24;
            cfg.max_h = 24;
            cfg.max_layers = 4;
            cfg.max_frames = 3;
            cfg.attrs = false;
            cfg.extremes = false;
            cfg.big = true;
            cfg.extreme_cels = true;
            cfg.aligned_tilemaps = k % 2 == 0;
            let (mut sp, pp) = crate::gen::gen_sprite(&mut r, &cfg);
            // keep the canvas small so that the digest includes all images
            if sp.width as u32 * sp.height as u32 > 4096 {
                sp.width = sp.width.min(64);
                sp.height = sp.height.min(64);
            }
            let mut v = crate::program::Variation::none();
            v.storage = true;
            let bytes = crate::encode::encode(&crate::program::compile_with(&sp, &mut r, &v, &pp)).0;
            out.push(Input { operator: "wellformed:big".into(), label: format!("{}: well-formed sprite #{} with large dimensions", base.name, k), bytes });
        }
    }
    if plan.mode == Mode::Mem && b < 16 && base.spec.is_some() {
        if let Some(op) = hostile::MODEL_OPS.iter().position(|o| *o == "big_honest_cel") {
            if let Some(i) = hostile::model_input(&base, op, &mut rng, 0) {
                out.push(i);
            }
        }
    }
    match plan.mode {
        Mode::Mem => {
            // every size / count / index field inflated one at a time to each larger boundary value
            out.extend(hostile::field_inputs(&base, true));
            out.extend(hostile::pair_field_inputs(&base));
        }
        _ => {
            out.extend(hostile::field_inputs(&base, false));
            out.extend(hostile::string_inputs(&base));
        }
    }
    out.extend(hostile::multi_field_inputs(&base, &mut rng, if thorough { 120 } else { 40 }));
    if base.spec.is_some() {
        let reps = if thorough { 3 } else { 1 };
        for op in 0..hostile::MODEL_OPS.len() {
            for r in 0..reps {
                // deep nests: depth grows with the base index so that several depths are probed
                // deep nests are generated for one base in eight; the depth cycles so that several depths are probed
                let deep = match (b / 8 + r as u64) % 4 {
                    0 => 30_000,
                    1 => 65_000,
                    2 => 12_000,
                    _ => 3000,
                };
                if hostile::MODEL_OPS[op] == "nested_groups" && (b % 8 != 0 || r > 0) {
                    continue; // expensive input: one in eight bases
                }
                if hostile::MODEL_OPS[op] == "big_honest_cel" {
                    // memory monitor only, in the first base of every worker stripe, BEFORE that base's other inputs
                    continue;
                }
                if hostile::MODEL_OPS[op] == "many_links_to_big_tilemap" && (r > 0 || b % 16 != 7 || plan.mode == Mode::Walk || plan.mode == Mode::Digest) {
                    continue; // a 4-16 M tile map: one base in sixteen, loading only (memory / totality)
                }
                if hostile::MODEL_OPS[op] == "palette_hundreds_of_thousands" && (r > 0 || b != 11) {
                    continue; // 1.2 - 1.8 MB: once per run and build
                }
                if hostile::MODEL_OPS[op] == "tilemap_huge_off_canvas" && (r > 0 || b % 16 != 13 || plan.mode == Mode::Mem || plan.mode == Mode::Load) {
                    continue; // only where images are rendered: one base in sixteen, every build
                }
                if hostile::MODEL_OPS[op] == "tileset_million_tiny_tiles" && (r > 0 || b % 16 != 9 || plan.mode == Mode::Walk || plan.mode == Mode::Digest) {
                    continue; // millions of tiles: one base in sixteen, loading only (memory / totality)
                }
                if hostile::MODEL_OPS[op] == "palette_colliding_keys" && (r > 0 || b != 5 || plan.mode == Mode::Mem) {
                    continue; // a 16-megapixel cel: once per run
                }
                if hostile::MODEL_OPS[op] == "tileset_strip_height_u32" && (!thorough || r > 0 || b != 3 || plan.mode != Mode::Walk) {
                    continue; // 4 GiB of pixel data: once per thorough run, where accessors are walked
                }
                if hostile::MODEL_OPS[op] == "tilemap_extent_i32" && (r > 0 || b % 33 != 3 || plan.mode == Mode::Mem || plan.mode == Mode::Load) {
                    continue; // ~2 x 10^9 loop iterations per rendering: one base in 33 (so that they land on different worker stripes), only where images are rendered
                }
                if hostile::MODEL_OPS[op] == "sparse_cel_table" {
                    // expensive, and only meaningful for the memory monitor: table sizes 750..7500 (quick) / up to 8000 (thorough)
                    if plan.mode != Mode::Mem || r > 0 || b % 16 != 0 {
                        continue;
                    }
                    let n4 = if thorough && b == 0 { 32_000 } else { deep.min(30_000) };
                    if let Some(i) = hostile::model_input(&base, op, &mut rng, n4) {
                        out.push(i);
                    }
                    continue;
                }
                if let Some(i) = hostile::model_input(&base, op, &mut rng, deep) {
                    out.push(i);
                }
            }
        }
    }
    if plan.mode != Mode::Mem {
        out.extend(hostile::unstructured_inputs(&base, &mut rng, if thorough { 240 } else { 80 }));
    }
    // size cap of the exploration (deep nests are exempt up to 2 MiB)
    out.retain(|i| i.bytes.len() <= plan.size_cap || ((i.operator == "model:nested_groups" || i.operator == "model:sparse_cel_table" || i.operator == "model:palette_hundreds_of_thousands") && i.bytes.len() <= 2 * 1024 * 1024) || (i.operator == "model:tileset_strip_height_u32" && i.bytes.len() <= 16 * 1024 * 1024));
    out
}

// ---------------------------------------------------------------------------
// worker
// ---------------------------------------------------------------------------

fn set_rlimit(resource: libc::__rlimit_resource_t, v: u64) {
    unsafe {
        let lim = libc::rlimit { rlim_cur: v, rlim_max: v };
        libc::setrlimit(resource, &lim);
    }
}

fn violation_line(b: u64, s: u64, input: &Input, sig: String, detail: String, extra: Value) -> String {
    let mut doc = json!({"sig": sig, "detail": detail, "operator": input.operator, "label": input.label, "extra": extra, "len": input.bytes.len()});
    if input.bytes.len() <= 64 * 1024 {
        doc["input_hex"] = Value::String(crate::val::hex(&input.bytes));
    }
    format!("V {} {} {}", b, s, doc)
}

/// Run one input in `mode`; returns (outcome code, optional violation line, stats line suffix)
fn run_input(mode: Mode, b: u64, s: u64, input: &Input, seed: u64) -> (String, Option<String>, String) {
    let bytes = &input.bytes;
    match mode {
        Mode::Digest => {
            // everything observable about this input, as one token: used to compare build profiles
            let r = guarded(|| load(bytes));
            let code = match r {
                Err(p) => format!("loadpanic:{}", p.signature().replace(' ', "_")),
                Ok(Err(e)) => format!("err:{}", err_sig(&e).replace(' ', "_")),
                Ok(Ok(ase)) => {
                    let small = (ase.width() as u64) * (ase.height() as u64) <= 4096 && ase.num_frames() * ase.num_layers() <= 64;
                    let r2 = guarded(|| {
                        let mut o = crate::observe::ObsOpts::no_images();
                        if small {
                            o = crate::observe::ObsOpts::full();
                        }
                        crate::observe::observe(&ase, &o).digest()
                    });
                    match r2 {
                        Ok(d) => format!("ok:{:016x}", d),
                        Err(p) => format!("usepanic:{}", p.signature().replace(' ', "_")),
                    }
                }
            };
            (code, None, String::new())
        }
        Mode::Load | Mode::Walk => {
            let r = guarded(|| load(bytes));
            match r {
                Err(p) => {
                    let sig = format!("load-{}", p.signature());
                    let v = violation_line(b, s, input, sig, format!("AsepriteFile::read panicked: {} at {}", p.message, p.location), json!({"frame": p.asefile_frame, "in_library": p.in_library()}));
                    ("load-panic".into(), Some(v), String::new())
                }
                Ok(Err(e)) => {
                    // the error value itself must be usable: Display, Debug and source() return normally
                    let r = guarded(|| {
                        let _ = e.to_string();
                        let _ = format!("{:?}", e);
                        let _ = std::error::Error::source(&e).map(|s| s.to_string());
                    });
                    if let Err(p) = r {
                        let v = violation_line(b, s, input, format!("error-value-{}", p.signature()), format!("formatting the returned error panicked: {}", p.message), json!({}));
                        return ("error-value-panic".into(), Some(v), String::new());
                    }
                    (err_variant(&e).to_string(), None, String::new())
                }
                Ok(Ok(ase)) => {
                    if mode == Mode::Load {
                        return ("Ok".into(), None, String::new());
                    }
                    let wseed = crate::rng::mix(seed ^ (b << 20) ^ s);
                    let r = guarded(|| {
                        let st = walk::walk(&ase, wseed, 400);
                        // all three routes must also agree on anything that loaded (C19 rides here)
                        let routes = if (ase.width() as u64) * (ase.height() as u64) <= 65536 && ase.num_frames() * ase.num_layers() <= 400 { crate::checks::c19::routes_agree(&ase, true).err() } else { None };
                        (st, routes)
                    });
                    match r {
                        Err(p) => {
                            let sig = format!("use-{}", p.signature());
                            let v = violation_line(b, s, input, sig, format!("file loaded Ok but an accessor panicked: {} at {}", p.message, p.location), json!({"frame": p.asefile_frame, "walk_seed": wseed}));
                            ("walk-panic".into(), Some(v), String::new())
                        }
                        Ok((st, routes)) => {
                            if let Some(d) = st.dim_error {
                                let v = violation_line(b, s, input, format!("dimension|{}", normalise_digits(&d)), d, json!({"walk_seed": wseed}));
                                return ("walk-dim".into(), Some(v), String::new());
                            }
                            if let Some(rv) = routes {
                                let v = violation_line(b, s, input, format!("routes|{}", rv.sig), rv.detail, json!({}));
                                return ("walk-routes".into(), Some(v), String::new());
                            }
                            (if input.operator == "wellformed" { "walk-ok-wellformed".into() } else { "walk-ok-hostile-but-accepted".into() }, None, format!("{} {} {}", st.calls, st.images, st.skipped_big))
                        }
                    }
                }
            }
        }
        Mode::Mem => {
            let bound = mem_bound(bytes.len());
            allocmon::arm(bound, 1);
            let r = guarded(|| load(bytes).map(|a| drop(a)).is_ok());
            let st = allocmon::disarm();
            let code = match &r {
                Ok(true) => "Ok",
                Ok(false) => "Err",
                Err(_) => "panic",
            };
            let mut viol = None;
            if st.peak > bound || st.largest > bound {
                let what = if st.largest > bound { "single-request" } else { "peak-live" };
                viol = Some(violation_line(
                    b,
                    s,
                    input,
                    format!("memory-bound|{}|{}", what, input.operator),
                    format!("loading {} input bytes: peak live heap {} bytes, largest single request {} bytes, bound 64 MiB + 8192*len = {} bytes (load result: {})", bytes.len(), st.peak, st.largest, bound, code),
                    json!({"peak": st.peak, "largest": st.largest, "bound": bound, "requests": st.requests}),
                ));
            }
            (code.to_string(), viol, format!("{} {} {} {}", st.peak, st.largest, bound, st.requests))
        }
    }
}

pub struct WorkerArgs {
    pub mode: Mode,
    pub seed: u64,
    pub tier: Tier,
    pub generated_bases: u64,
    pub corpus: bool,
    pub size_cap: usize,
    pub first: u64,
    pub stride: u64,
    pub resume_sub: u64,
    pub single: Option<(u64, u64)>,
    /// run exactly this file (fuzzer artifact triage)
    pub file: Option<std::path::PathBuf>,
    pub as_limit_gib: u64,
    pub cpu_limit: u64,
}

pub fn worker_main(ctx: &Ctx, a: WorkerArgs) -> i32 {
    if a.as_limit_gib > 0 {
        set_rlimit(libc::RLIMIT_AS, a.as_limit_gib << 30);
    }
    if a.cpu_limit > 0 {
        set_rlimit(libc::RLIMIT_CPU, a.cpu_limit);
    }
    // no core dumps
    set_rlimit(libc::RLIMIT_CORE, 0);
    let corpus = if a.corpus { crate::corpus::list(ctx) } else { vec![] };
    let plan = Plan { mode: a.mode, seed: a.seed, tier: a.tier, generated_bases: a.generated_bases, corpus: a.corpus, size_cap: a.size_cap };
    let total = plan.total_bases(corpus.len() as u64);
    // the whole loop runs on an ordinary 2 MiB thread (the stack the property names)
    let handle = std::thread::Builder::new()
        .stack_size(2 * 1024 * 1024)
        .spawn(move || {
            let out = std::io::stdout();
            let mut b = a.first;
            let mut first_base = true;
            if let Some(path) = &a.file {
                let bytes = std::fs::read(path).unwrap_or_default();
                let input = Input { operator: "fuzz:libfuzzer".into(), label: format!("fuzzer artifact {}", path.display()), bytes };
                {
                    let mut o = out.lock();
                    let _ = writeln!(o, "B 0 0");
                    let _ = o.flush();
                }
                let (code, v, extra) = run_input(plan.mode, 0, 0, &input, plan.seed);
                let mut o = out.lock();
                if let Some(v) = v {
                    let _ = writeln!(o, "{}", v);
                }
                let _ = writeln!(o, "E 0 0 {} {}", code, extra);
                return;
            }
            if let Some((sb, ss)) = a.single {
                let inputs = inputs_of_base(&plan, sb, &corpus);
                if let Some(input) = inputs.get(ss as usize) {
                    {
                        let mut o = out.lock();
                        let _ = writeln!(o, "B {} {}", sb, ss);
                        let _ = o.flush();
                    }
                    let (code, v, extra) = run_input(plan.mode, sb, ss, input, plan.seed);
                    let mut o = out.lock();
                    if let Some(v) = v {
                        let _ = writeln!(o, "{}", v);
                    }
                    let _ = writeln!(o, "E {} {} {} {}", sb, ss, code, extra);
                }
                return;
            }
            // ASEMON_SUB_SAMPLE=k: only every k-th derived input of each base (indices keep their meaning; the
            // unmodified base itself always runs) - spreads a slow build's share over many bases and workers
            let sub_sample: u64 = std::env::var("ASEMON_SUB_SAMPLE").ok().and_then(|x| x.parse().ok()).unwrap_or(1).max(1);
            while b < total {
                // building the inputs of a base can take minutes (one thorough base deflates 4 GiB): say so, the
                // supervisor's stall watchdog is for the library, not for the harness
                {
                    let mut o = out.lock();
                    let _ = writeln!(o, "G {}", b);
                    let _ = o.flush();
                }
                let inputs = inputs_of_base(&plan, b, &corpus);
                let start = if first_base { a.resume_sub } else { 0 };
                first_base = false;
                for (s, input) in inputs.iter().enumerate().skip(start as usize) {
                    // (deep group nests always run: stack depth per call differs most in the unoptimised build)
                    if sub_sample > 1 && s != 0 && input.operator != "model:nested_groups" && input.operator != "model:tilemap_huge_off_canvas" && input.operator != "model:palette_hundreds_of_thousands" && ((s as u64 + b) % sub_sample != 0 || input.operator == "model:tilemap_extent_i32" || input.operator == "model:tileset_strip_height_u32" || input.operator == "model:palette_colliding_keys") {
                        // (the unoptimised build needs minutes per rendering of a 2^31-pixel tilemap extent)
                        continue;
                    }
                    {
                        let mut o = out.lock();
                        let _ = writeln!(o, "B {} {}", b, s);
                        let _ = o.flush();
                    }
                    let (code, v, extra) = run_input(plan.mode, b, s as u64, input, plan.seed);
                    let mut o = out.lock();
                    if let Some(v) = v {
                        let _ = writeln!(o, "{}", v);
                    }
                    let _ = writeln!(o, "E {} {} {} {} {}", b, s, code, input.operator, extra);
                }
                {
                    let mut o = out.lock();
                    let _ = writeln!(o, "D {}", b);
                    let _ = o.flush();
                }
                b += a.stride;
            }
        })
        .expect("spawn case thread");
    let _ = handle.join();
    0
}

// ---------------------------------------------------------------------------
// supervisor
// ---------------------------------------------------------------------------

pub struct SupervisorCfg {
    pub bin: String,
    pub build: String,
    pub plan: Plan,
    pub workers: u64,
    pub as_limit_gib: u64,
    pub extra_env: Vec<(String, String)>,
    /// seconds without output after which a worker is presumed hung
    pub stall_secs: u64,
}

#[derive(Default)]
pub struct SupResult {
    pub summary: Summary,
    pub deaths: u64,
    pub restarts: u64,
    pub max_mem_ratio_milli: u64,
    pub max_mem_case: String,
    pub per_operator: BTreeMap<String, (u64, u64)>, // operator -> (inputs, accepted)
    /// (base, sub) -> outcome code (Digest mode only)
    pub codes: BTreeMap<(u64, u64), String>,
}

fn signal_name(sig: i32) -> &'static str {
    match sig {
        libc::SIGABRT => "SIGABRT",
        libc::SIGSEGV => "SIGSEGV",
        libc::SIGBUS => "SIGBUS",
        libc::SIGKILL => "SIGKILL",
        libc::SIGXCPU => "SIGXCPU",
        libc::SIGILL => "SIGILL",
        libc::SIGFPE => "SIGFPE",
        _ => "signal",
    }
}

fn classify_death(stderr_tail: &str, announced: Option<u64>) -> String {
    if stderr_tail.contains("has overflowed its stack") || stderr_tail.contains("stack overflow") {
        "stack-overflow".into()
    } else if stderr_tail.contains("memory allocation of") || announced.is_some() {
        "allocation-failure".into()
    } else if stderr_tail.contains("AddressSanitizer") {
        "sanitizer-report".into()
    } else {
        "abort".into()
    }
}

/// Runs one stripe (worker k of n) to completion, restarting after deaths.
fn run_stripe(ctx: &Ctx, cfg: &SupervisorCfg, k: u64, corpus: &[(String, Vec<u8>)]) -> SupResult {
    use std::os::unix::process::ExitStatusExt;
    let mut res = SupResult::default();
    let mut first = k;
    let mut resume_sub = 0u64;
    let total = cfg.plan.total_bases(corpus.len() as u64);
    let prop = ctx.prop.clone();
    let mut outside_kills: std::collections::HashMap<(u64, u64), u32> = std::collections::HashMap::new();
    loop {
        if first >= total {
            break;
        }
        let mut cmd = Command::new(&cfg.bin);
        cmd.arg("worker")
            .arg("--mode")
            .arg(cfg.plan.mode.name())
            .arg("--seed")
            .arg(cfg.plan.seed.to_string())
            .arg("--tier")
            .arg(cfg.plan.tier.name())
            .arg("--generated-bases")
            .arg(cfg.plan.generated_bases.to_string())
            .arg("--corpus")
            .arg(if cfg.plan.corpus { "1" } else { "0" })
            .arg("--size-cap")
            .arg(cfg.plan.size_cap.to_string())
            .arg("--first")
            .arg(first.to_string())
            .arg("--stride")
            .arg(cfg.workers.to_string())
            .arg("--resume-sub")
            .arg(resume_sub.to_string())
            .arg("--as-limit-gib")
            .arg(cfg.as_limit_gib.to_string())
            .stdout(Stdio::piped())
            .stderr(Stdio::piped())
            .stdin(Stdio::null());
        for (k2, v) in &cfg.extra_env {
            cmd.env(k2, v);
        }
        let mut child = match cmd.spawn() {
            Ok(c) => c,
            Err(e) => {
                res.summary.inconclusive.push(format!("cannot spawn worker {}: {}", cfg.bin, e));
                return res;
            }
        };
        let stdout = child.stdout.take().unwrap();
        let mut stderr = child.stderr.take().unwrap();
        let err_handle = std::thread::spawn(move || {
            let mut s = Vec::new();
            let _ = stderr.read_to_end(&mut s);
            let text = String::from_utf8_lossy(&s).to_string();
            let n = text.len();
            text[n.saturating_sub(2000)..].to_string()
        });
        let rd = BufReader::new(stdout);
        let activity = std::sync::Arc::new(std::sync::atomic::AtomicU64::new(0));
        let done = std::sync::Arc::new(std::sync::atomic::AtomicBool::new(false));
        let killed = std::sync::Arc::new(std::sync::atomic::AtomicBool::new(false));
        let generating = std::sync::Arc::new(std::sync::atomic::AtomicBool::new(true));
        let pid = child.id() as i32;
        let wd = {
            let (activity, done, killed, generating) = (activity.clone(), done.clone(), killed.clone(), generating.clone());
            let stall = cfg.stall_secs.max(5);
            std::thread::spawn(move || {
                let mut last = 0u64;
                let mut idle = 0u64;
                while !done.load(std::sync::atomic::Ordering::Relaxed) {
                    std::thread::sleep(std::time::Duration::from_millis(500));
                    let cur = activity.load(std::sync::atomic::Ordering::Relaxed);
                    if cur != last {
                        last = cur;
                        idle = 0;
                    } else {
                        idle += 1;
                        // (while the worker builds the inputs of its next base nothing of the library runs: ten times the patience)
                        if idle >= stall * 2 * if generating.load(std::sync::atomic::Ordering::Relaxed) { 10 } else { 1 } {
                            killed.store(true, std::sync::atomic::Ordering::Relaxed);
                            unsafe {
                                libc::kill(pid, libc::SIGKILL);
                            }
                            break;
                        }
                    }
                }
            })
        };
        let mut last_begin: Option<(u64, u64)> = None;
        let mut announced: Option<u64> = None;
        let mut finished_all = false;
        let mut cur_base = first;
        for line in rd.lines() {
            let line = match line {
                Ok(l) => l,
                Err(_) => break,
            };
            activity.fetch_add(1, std::sync::atomic::Ordering::Relaxed);
            let mut it = line.splitn(4, ' ');
            match it.next() {
                Some("G") => {
                    cur_base = it.next().and_then(|x| x.parse().ok()).unwrap_or(cur_base);
                    generating.store(true, std::sync::atomic::Ordering::Relaxed);
                }
                Some("B") => {
                    generating.store(false, std::sync::atomic::Ordering::Relaxed);
                    let b: u64 = it.next().and_then(|x| x.parse().ok()).unwrap_or(0);
                    let s: u64 = it.next().and_then(|x| x.parse().ok()).unwrap_or(0);
                    last_begin = Some((b, s));
                    announced = None;
                    cur_base = b;
                }
                Some("A") => {
                    announced = it.next().and_then(|x| x.parse().ok());
                }
                Some("E") => {
                    let b: u64 = it.next().and_then(|x| x.parse().ok()).unwrap_or(0);
                    let s: u64 = it.next().and_then(|x| x.parse().ok()).unwrap_or(0);
                    let rest = it.next().unwrap_or("");
                    let mut parts = rest.split(' ');
                    let code = parts.next().unwrap_or("?").to_string();
                    let operator = parts.next().unwrap_or("?").to_string();
                    last_begin = None;
                    if cfg.plan.mode == Mode::Digest {
                        res.codes.insert((b, s), code.clone());
                    }
                    let mut cr = CaseResult::default();
                    cr.nontrivial = true;
                    cr.feature = crate::rng::mix((b << 24) ^ s ^ crate::rng::hash_str(&cfg.build)) | 1;
                    cr.leaves = 1;
                    cr.outcomes.push(format!("{}:{}", cfg.build, if cfg.plan.mode == Mode::Digest { code.split(':').next().unwrap_or("?").to_string() } else { code.clone() }));
                    let fam = operator.split(':').take(2).collect::<Vec<_>>().join(":");
                    let e = res.per_operator.entry(fam).or_insert((0, 0));
                    e.0 += 1;
                    if code.starts_with("Ok") || code.starts_with("walk-ok") {
                        e.1 += 1;
                    }
                    if cfg.plan.mode == Mode::Mem {
                        let nums: Vec<u64> = parts.filter_map(|x| x.parse().ok()).collect();
                        if nums.len() >= 3 && nums[2] > 0 {
                            let ratio = nums[0].max(nums[1]) as u128 * 1000 / nums[2] as u128;
                            if ratio as u64 > res.max_mem_ratio_milli {
                                res.max_mem_ratio_milli = ratio as u64;
                                res.max_mem_case = format!("base {} sub {} ({}): peak {} largest {} bound {}", b, s, operator, nums[0], nums[1], nums[2]);
                            }
                            cr.count("allocator_requests_observed", *nums.get(3).unwrap_or(&0));
                        }
                    } else if cfg.plan.mode == Mode::Walk {
                        let nums: Vec<u64> = parts.filter_map(|x| x.parse().ok()).collect();
                        if nums.len() >= 3 {
                            cr.count("accessor_calls", nums[0]);
                            cr.count("images_rendered", nums[1]);
                            cr.count("renders_skipped_over_4Mpx", nums[2]);
                        }
                    }
                    res.summary.absorb(b * 100_000 + s, cr);
                }
                Some("V") => {
                    let b: u64 = it.next().and_then(|x| x.parse().ok()).unwrap_or(0);
                    let s: u64 = it.next().and_then(|x| x.parse().ok()).unwrap_or(0);
                    let js = it.next().unwrap_or("{}");
                    if let Ok(v) = serde_json::from_str::<Value>(js) {
                        let mut viol = Violation::new(v["sig"].as_str().unwrap_or("?").to_string(), format!("[{} build] {} — input: {}", cfg.build, v["detail"].as_str().unwrap_or(""), v["label"].as_str().unwrap_or("")));
                        if let Some(h) = v["input_hex"].as_str() {
                            viol.input = Some(crate::val::unhex(h));
                        }
                        viol.extra = json!({"base": b, "sub": s, "operator": v["operator"], "label": v["label"], "build": cfg.build, "mode": cfg.plan.mode.name(), "extra": v["extra"]});
                        let mut cr = CaseResult::default();
                        cr.violations.push(viol);
                        // not a separate evaluation: merged into the E line's case
                        res.summary.absorb(b * 100_000 + s, cr);
                        res.summary.evaluations -= 1;
                    }
                }
                Some("D") => {
                    let b: u64 = it.next().and_then(|x| x.parse().ok()).unwrap_or(0);
                    if b + cfg.workers >= total {
                        finished_all = true;
                    }
                }
                _ => {}
            }
        }
        let status = child.wait();
        done.store(true, std::sync::atomic::Ordering::Relaxed);
        let _ = wd.join();
        let was_killed = killed.load(std::sync::atomic::Ordering::Relaxed);
        let tail = err_handle.join().unwrap_or_default();
        let sig = status.as_ref().ok().and_then(|s| s.signal());
        let exited_ok = status.as_ref().map(|s| s.success()).unwrap_or(false);
        if exited_ok && last_begin.is_none() {
            let _ = finished_all;
            break;
        }
        // death: attribute to the last B without E
        res.deaths += 1;
        // A SIGKILL that the supervisor did not send comes from outside (the kernel's out-of-memory killer picking a
        // victim while other processes fill the machine): the worker itself runs under an address-space limit and
        // fails with an abort, never with SIGKILL. Such a death says nothing about the input - the same input (or the
        // same base, when the worker was between inputs) is given to a fresh worker, three times at most and after a
        // growing pause; a death that
        // repeats is then judged like any other.
        if sig == Some(libc::SIGKILL) && !was_killed {
            let key = last_begin.unwrap_or((cur_base, u64::MAX));
            let n = outside_kills.entry(key).or_insert(0u32);
            *n += 1;
            if *n <= 3 {
                res.summary.counters.entry("workers_killed_from_outside_and_restarted".into()).and_modify(|c| *c += 1).or_insert(1);
                // whatever filled the machine needs time to finish: 15 s, 45 s, 2 min
                std::thread::sleep(std::time::Duration::from_secs([15u64, 45, 120][(*n as usize - 1).min(2)]));
                match last_begin {
                    Some((b, sub)) => {
                        first = b;
                        resume_sub = sub;
                    }
                    None => {
                        first = cur_base;
                        resume_sub = 0;
                    }
                }
                res.restarts += 1;
                continue;
            }
        }
        if was_killed {
            // presumed hang: the verdict is decided on CPU time of an isolated re-run, never on wall time
            if let Some((b, s)) = last_begin {
                let inputs = inputs_of_base(&cfg.plan, b, corpus);
                let len = inputs.get(s as usize).map(|i| i.bytes.len()).unwrap_or(0);
                let budget = (10 + (len as u64 * 50) / 1_000_000) * 10;
                let st = Command::new(&cfg.bin)
                    .arg("worker").arg("--mode").arg(cfg.plan.mode.name()).arg("--seed").arg(cfg.plan.seed.to_string()).arg("--tier").arg(cfg.plan.tier.name())
                    .arg("--generated-bases").arg(cfg.plan.generated_bases.to_string()).arg("--corpus").arg(if cfg.plan.corpus { "1" } else { "0" })
                    .arg("--size-cap").arg(cfg.plan.size_cap.to_string()).arg("--single").arg(format!("{}:{}", b, s)).arg("--cpu-limit").arg(budget.to_string())
                    .arg("--as-limit-gib").arg(cfg.as_limit_gib.to_string())
                    .stdout(Stdio::null()).stderr(Stdio::null()).stdin(Stdio::null()).status();
                let xcpu = st.as_ref().ok().and_then(|x| x.signal()) == Some(libc::SIGXCPU) || st.as_ref().ok().and_then(|x| x.signal()) == Some(libc::SIGKILL);
                let mut cr = CaseResult::default();
                cr.nontrivial = true;
                cr.feature = crate::rng::mix((b << 24) ^ s) | 1;
                if xcpu {
                    let input = inputs.get(s as usize);
                    let operator = input.map(|i| i.operator.clone()).unwrap_or_default();
                    let mut viol = Violation::new(format!("no-return|cpu-budget|{}", operator), format!("[{} build] input did not return within {} CPU-seconds (10x the budget of 10 s + 50 us/byte) on an isolated re-run: {}", cfg.build, budget, input.map(|i| i.label.clone()).unwrap_or_default()));
                    if let Some(i) = input {
                        viol.input = Some(i.bytes.clone());
                    }
                    viol.extra = json!({"base": b, "sub": s, "operator": operator, "build": cfg.build, "cpu_budget_s": budget});
                    cr.outcomes.push(format!("{}:no-return", cfg.build));
                    cr.violations.push(viol);
                } else {
                    cr.outcomes.push(format!("{}:slow-but-returned", cfg.build));
                }
                res.summary.absorb(b * 100_000 + s, cr);
                first = b;
                resume_sub = s + 1;
                res.restarts += 1;
                continue;
            }
        }
        match last_begin {
            Some((b, s)) => {
                let inputs = inputs_of_base(&cfg.plan, b, corpus);
                let input = inputs.get(s as usize);
                let kind = classify_death(&tail, announced);
                let signame = sig.map(signal_name).unwrap_or("exit");
                let operator = input.map(|i| i.operator.clone()).unwrap_or_default();
                let phase = match cfg.plan.mode {
                    Mode::Load => "load",
                    Mode::Walk | Mode::Digest => "load-or-use",
                    Mode::Mem => "load",
                };
                let mut viol = Violation::new(
                    format!("process-death|{}|{}|{}", kind, phase, operator),
                    format!(
                        "[{} build] worker died ({} / {}) while processing input: {}{} — stderr tail: {}",
                        cfg.build,
                        signame,
                        kind,
                        input.map(|i| i.label.clone()).unwrap_or_default(),
                        announced.map(|a| format!(" (allocator announced a {}-byte request)", a)).unwrap_or_default(),
                        tail.lines().rev().take(3).collect::<Vec<_>>().join(" | ")
                    ),
                );
                if let Some(i) = input {
                    viol.input = Some(i.bytes.clone());
                }
                viol.extra = json!({"base": b, "sub": s, "operator": operator, "signal": signame, "kind": kind, "build": cfg.build, "mode": cfg.plan.mode.name(), "announced_request": announced});
                let mut cr = CaseResult::default();
                cr.nontrivial = true;
                cr.feature = crate::rng::mix((b << 24) ^ s) | 1;
                cr.outcomes.push(format!("{}:process-death:{}", cfg.build, kind));
                cr.violations.push(viol);
                res.summary.absorb(b * 100_000 + s, cr);
                // resume after the fatal input
                first = b;
                resume_sub = s + 1;
                res.restarts += 1;
                let _ = prop;
            }
            None => {
                res.summary.inconclusive.push(format!("worker for stripe {} died outside any input ({:?}); stderr: {}", k, status, tail.lines().last().unwrap_or("")));
                // skip the base it was on
                first = cur_base + cfg.workers;
                resume_sub = 0;
            }
        }
        let prop = ctx.prop.clone();
        let _ = &prop;
        if res.restarts > 5000 {
            res.summary.inconclusive.push("too many worker restarts".into());
            break;
        }
    }
    res
}

pub fn supervise(ctx: &Ctx, cfg: &SupervisorCfg) -> SupResult {
    let corpus = if cfg.plan.corpus { crate::corpus::list(ctx) } else { vec![] };
    let mut total = SupResult::default();
    let results: Vec<SupResult> = std::thread::scope(|s| {
        let handles: Vec<_> = (0..cfg.workers).map(|k| { let corpus = &corpus; s.spawn(move || run_stripe(ctx, cfg, k, corpus)) }).collect();
        handles.into_iter().map(|h| h.join().unwrap_or_default()).collect()
    });
    for r in results {
        total.summary.merge(r.summary);
        total.deaths += r.deaths;
        total.restarts += r.restarts;
        if r.max_mem_ratio_milli > total.max_mem_ratio_milli {
            total.max_mem_ratio_milli = r.max_mem_ratio_milli;
            total.max_mem_case = r.max_mem_case;
        }
        for (k, v) in r.per_operator {
            let e = total.per_operator.entry(k).or_insert((0, 0));
            e.0 += v.0;
            e.1 += v.1;
        }
        total.codes.extend(r.codes);
    }
    total
}


/// Triage of libFuzzer artifacts: each file is re-run in an isolated worker; returns a summary.
pub fn triage_files(ctx: &Ctx, bin: &str, mode: Mode, dir: &std::path::Path) -> Summary {
    use std::os::unix::process::ExitStatusExt;
    let mut sum = Summary::default();
    let mut files: Vec<_> = std::fs::read_dir(dir).map(|rd| rd.filter_map(|e| e.ok()).map(|e| e.path()).filter(|p| p.is_file()).collect()).unwrap_or_default();
    files.sort();
    for (k, f) in files.iter().enumerate().take(200) {
        let bytes = std::fs::read(f).unwrap_or_default();
        let budget = (10 + (bytes.len() as u64 * 50) / 1_000_000) * 10;
        let out = Command::new(bin)
            .arg("worker").arg("--mode").arg(mode.name()).arg("--seed").arg(ctx.seed.to_string()).arg("--file").arg(f).arg("--as-limit-gib").arg("12").arg("--cpu-limit").arg(budget.to_string())
            .output();
        let mut cr = CaseResult::default();
        cr.nontrivial = true;
        cr.feature = crate::rng::hash_bytes(&bytes) | 1;
        cr.leaves = 1;
        match out {
            Err(e) => cr.inconclusive = Some(format!("cannot run worker on {}: {}", f.display(), e)),
            Ok(o) => {
                let text = String::from_utf8_lossy(&o.stdout).to_string();
                let mut found = false;
                for l in text.lines() {
                    if let Some(js) = l.strip_prefix("V 0 0 ") {
                        if let Ok(v) = serde_json::from_str::<Value>(js) {
                            let mut viol = Violation::new(v["sig"].as_str().unwrap_or("?").to_string(), format!("[fuzzer artifact] {}", v["detail"].as_str().unwrap_or("")));
                            viol.input = Some(bytes.clone());
                            viol.extra = json!({"operator": "fuzz:libfuzzer", "artifact": f.display().to_string(), "mode": mode.name()});
                            cr.violations.push(viol);
                            found = true;
                        }
                    }
                }
                if !o.status.success() && !found {
                    let tail = String::from_utf8_lossy(&o.stderr).to_string();
                    let sig = o.status.signal();
                    let kind = if sig == Some(libc::SIGXCPU) { "no-return".to_string() } else { classify_death(&tail, None) };
                    let mut viol = Violation::new(format!("process-death|{}|{}|fuzz:libfuzzer", kind, mode.name()), format!("[fuzzer artifact] worker died ({:?}, {}) on {}", sig.map(signal_name), kind, f.display()));
                    viol.input = Some(bytes.clone());
                    viol.extra = json!({"operator": "fuzz:libfuzzer", "artifact": f.display().to_string(), "mode": mode.name()});
                    cr.violations.push(viol);
                    found = true;
                }
                cr.outcomes.push(if found { "fuzz-artifact:confirmed".into() } else { "fuzz-artifact:not-reproduced".into() });
            }
        }
        sum.absorb(3_000_000 + k as u64, cr);
    }
    sum
}
