//! Structural giants: well-formed sprites whose entity counts lie beyond what
//! random small sprites reach (65535 frames / tags, 4096 layers, a 300 x 300
//! cel table with links into frames >= 256, ...). Used by C01 (model
//! comparison) and, unmodified and lightly damaged, by C04 / C05 / C12.

use crate::model::*;

pub fn giant(kind: u64) -> (Sprite, &'static str) {
    match kind {
        0 => {
            // 65535 frames, each with its own duration
            let mut sp = Sprite::blank(3, 2, Fmt::Rgba, 65535);
            for (i, d) in sp.durations.iter_mut().enumerate() {
                *d = (i as u32 * 7 % 65536) as u16;
            }
            sp.layers.push(LayerM::image("only"));
            sp.cels.insert((65534, 0), CelM { x: 1, y: 0, opacity: 9, content: CelContentM::Image { w: 1, h: 1, pixels: vec![1, 2, 3, 4] }, ud: None });
            (sp, "65535-frames")
        }
        1 => {
            let mut sp = Sprite::blank(1, 1, Fmt::Gray, 2);
            sp.layers.push(LayerM::image("l"));
            for i in 0..65535u32 {
                sp.tags.push(TagM { from: i as u16, to: (65535 - i) as u16, dir: (i % 3) as u8, repeat: (i * 3 % 65536) as u16, color: i, name: format!("t{}", i % 1000), ud: None });
            }
            (sp, "65535-tags")
        }
        4 => {
            // more than 255 of every kind of entity
            let mut sp = Sprite::blank(5, 4, Fmt::Indexed, 3);
            sp.transparent_index = 7;
            let mut pal = std::collections::BTreeMap::new();
            for i in 0..300u32 {
                pal.insert(i, PalEntryM { rgba: [(i % 256) as u8, (i / 2 % 256) as u8, 9, if i % 5 == 0 { 128 } else { 255 }], name: if i % 3 == 0 { Some(format!("colour {}", i)) } else { None } });
            }
            sp.palette = Some(pal);
            sp.layers.push(LayerM::image("base"));
            for i in 0..300u32 {
                sp.tags.push(TagM { from: (i * 211 % 65536) as u16, to: (65535 - i) as u16, dir: (i % 3) as u8, repeat: (i % 7) as u16, color: i, name: format!("tag{}", i % 50), ud: Some(UserDataM { text: Some(format!("t{}", i)), color: None }) });
                let nk = if i == 299 { 300 } else { (i % 3) as usize };
                let flags = i % 4;
                sp.slices.push(SliceM {
                    name: format!("slice{}", i % 60),
                    flags,
                    keys: (0..nk).map(|k| SliceKeyM { frame: k as u32, x: -(k as i32), y: i as i32, w: k as u32 + 1, h: i + 1, center: if flags & 1 != 0 { Some((1, -1, k as u32, i)) } else { None }, pivot: if flags & 2 != 0 { Some((k as i32, -(i as i32))) } else { None } }).collect(),
                    ud: if i % 2 == 0 { Some(UserDataM { text: None, color: Some([i as u8, 1, 2, 3]) }) } else { None },
                });
                sp.ext_files.push(ExtFileM { id: i * 1_000_003 % 4_000_000_000u32.max(1), name: format!("file{}.aseprite", i) });
                sp.tilesets.push(TilesetM { id: if i < 290 { i } else { 0x7fff_0000 + i }, flags: TS_EMBED | if i % 2 == 0 { TS_ZERO_EMPTY } else { 0 }, count: 1 + i % 3, tw: 1, th: 1, base_index: (i as i16) - 150, name: format!("ts{}", i), ext: None, pixels: vec![7; (1 + i % 3) as usize] });
            }
            // unique external-file ids
            let mut seen = std::collections::HashSet::new();
            sp.ext_files.retain(|f| seen.insert(f.id));
            (sp, "300-of-everything")
        }
        6 => {
            // more than 65535 of everything the format counts in 32 bits
            let n = 70_000u32;
            let mut sp = Sprite::blank(3, 3, Fmt::Indexed, 2);
            sp.transparent_index = 0;
            let mut pal = std::collections::BTreeMap::new();
            for i in 0..n {
                pal.insert(i, PalEntryM { rgba: [i as u8, (i >> 8) as u8, (i >> 16) as u8, 255 - (i % 3) as u8], name: if i % 10_000 == 9_999 || i == n - 1 { Some(format!("c{}", i)) } else { None } });
            }
            sp.palette = Some(pal);
            sp.layers.push(LayerM::image("base"));
            for i in 0..n {
                let nk = if i == n - 1 { n as usize } else if i % 20_000 == 0 { 2 } else { 0 };
                sp.slices.push(SliceM {
                    name: if i % 30_000 == 5 { format!("s{}", i) } else { String::new() },
                    flags: 0,
                    keys: (0..nk).map(|k| SliceKeyM { frame: k as u32, x: k as i32 - 5, y: -(k as i32), w: 1 + k as u32 % 9, h: 2, center: None, pivot: None }).collect(),
                    ud: if i % 25_000 == 1 || i == n - 1 { Some(UserDataM { text: Some(format!("ud{}", i)), color: None }) } else { None },
                });
                sp.ext_files.push(ExtFileM { id: ((1 + i as u64 * 61_357_001) % 4_294_967_291) as u32, name: if i % 10_000 == 3 { format!("f{}", i) } else { String::new() } });
            }
            let mut seen = std::collections::HashSet::new();
            sp.ext_files.retain(|f| seen.insert(f.id));
            for i in 0..n {
                sp.tilesets.push(TilesetM { id: if i < n - 5 { i } else { 0xfffe_0000 + i }, flags: TS_EMBED | TS_ZERO_EMPTY, count: 1, tw: 1, th: 1, base_index: 1, name: String::new(), ext: None, pixels: vec![0] });
            }
            (sp, "70000-of-everything")
        }
        5 => {
            // more layers than 16 bits can number, with groups (one hidden) and nested children beyond index 65535
            let mut sp = Sprite::blank(2, 2, Fmt::Rgba, 2);
            for i in 0..65_536u32 {
                let mut l = LayerM::image(if i % 1000 == 7 { "Base" } else { "" });
                l.opacity = (i % 256) as u8;
                l.flags = if i % 5 == 0 { 2 } else { 3 };
                sp.layers.push(l);
            }
            let shape: [(u16, bool, bool, &str); 12] = [
                (0, true, false, "hidden group"),
                (1, false, true, "child"),
                (1, true, true, "inner group"),
                (2, false, true, "Base"),
                (2, false, false, "grandchild"),
                (1, false, true, "child"),
                (0, true, true, "visible group"),
                (1, true, true, "g"),
                (2, true, false, "g"),
                (3, false, true, "deep"),
                (0, false, true, "top"),
                (0, false, true, "Base"),
            ];
            for (level, group, vis, name) in shape {
                let mut l = LayerM::image(name);
                l.level = level;
                l.flags = 2 | vis as u16;
                if group {
                    l.kind = LayerKind::Group;
                }
                sp.layers.push(l);
            }
            for l in [0u16, 7, 65_535] {
                sp.cels.insert((1, l), CelM { x: 0, y: 0, opacity: 255, content: CelContentM::Image { w: 1, h: 1, pixels: vec![l as u8, 2, 3, 255] }, ud: None });
            }
            (sp, "65548-layers-groups-beyond-65535")
        }
        3 => {
            // both dimensions of the cel table beyond 256, with links into late frames
            let n = 300usize;
            let mut sp = Sprite::blank(2, 2, Fmt::Rgba, n);
            for i in 0..n {
                let mut l = LayerM::image(&format!("L{}", i % 97));
                l.opacity = (i % 256) as u8;
                sp.layers.push(l);
            }
            for l in 0..n as u16 {
                let target = 256 + (l % 40);
                sp.cels.insert((target, l), CelM { x: (l % 2) as i16, y: 0, opacity: (l % 251) as u8, content: CelContentM::Image { w: 1, h: 1, pixels: vec![l as u8, (l >> 8) as u8, 7, 255] }, ud: None });
                let from = if l % 3 == 0 { 299 - (l % 2) } else { l % 200 };
                if from != target {
                    let t = sp.cels[&(target, l)].clone();
                    sp.cels.insert((from, l), CelM { x: t.x, y: t.y, opacity: t.opacity, content: CelContentM::Link(target), ud: None });
                }
                // a plain cel early on as well
                if l % 5 == 0 {
                    sp.cels.insert((l % 7 + 200, l), CelM { x: 0, y: 1, opacity: 255, content: CelContentM::Image { w: 1, h: 1, pixels: vec![9, l as u8, 9, 200] }, ud: None });
                }
            }
            (sp, "300x300-links")
        }
        _ => {
            let mut sp = Sprite::blank(2, 2, Fmt::Rgba, 1);
            for i in 0..4096u32 {
                let mut l = LayerM::image(&format!("L{}", i % 512));
                l.opacity = (i % 256) as u8;
                l.blend = (i % 19) as u16;
                // alternating group / child structure with growing depth up to 64
                if i % 3 == 0 {
                    l.kind = LayerKind::Group;
                    l.level = ((i / 3) % 64) as u16;
                    if i > 0 && l.level > 0 {
                        // level may only rise by one after a group: fix up below
                    }
                }
                sp.layers.push(l);
            }
            // make levels a valid forest: level[i] <= level[i-1]+1 and only groups have children
            let mut prev_level = 0u16;
            let mut prev_group = false;
            for (i, l) in sp.layers.iter_mut().enumerate() {
                let want = ((i as u32).wrapping_mul(2654435761u32) >> 26) as u16; // pseudo-random 0..63
                let max = if i == 0 { 0 } else if prev_group { prev_level + 1 } else { prev_level };
                l.level = want.min(max);
                prev_level = l.level;
                prev_group = l.kind == LayerKind::Group;
            }
            (sp, "4096-layers")
        }
    }
}

/// Encoded giants for the isolated checks: (name, bytes).
pub fn giant_files() -> Vec<(String, Vec<u8>)> {
    let mut out = Vec::new();
    let mut rng = crate::rng::Rng::new(7);
    let mut v = crate::program::Variation::none();
    v.default_storage = Storage::Raw;
    for k in [0u64, 1, 3, 4, 5, 6, 99] {
        let (sp, name) = giant(k);
        let bytes = crate::encode::encode(&crate::program::compile(&sp, &mut rng, &v)).0;
        out.push((format!("giant:{}", name), bytes));
    }
    // a legacy palette chunk with 300 packets whose skip bytes sum beyond 65535
    {
        let mut sp = Sprite::blank(1, 1, Fmt::Rgba, 1);
        sp.layers.push(LayerM::image("l"));
        let packets: Vec<(u8, Vec<[u8; 3]>)> = (0..300).map(|k| (255u8, vec![[k as u8 & 63, 1, 2]])).collect();
        for kind in [4u16, 0x11] {
            let spec = crate::program::compile_with(&sp, &mut rng, &v, &crate::program::PaletteProgram::Chunks(vec![ChunkSpec::OldPalette { kind, packets: packets.clone() }]));
            out.push((format!("giant:legacy-palette-0x{:04x}-300-packets", kind), crate::encode::encode(&spec).0));
        }
    }
    // 65537 slices / 300 slices with 300 keys
    {
        let mut sp = Sprite::blank(1, 1, Fmt::Rgba, 1);
        sp.layers.push(LayerM::image("l"));
        for i in 0..65_537u32 {
            sp.slices.push(SliceM { name: String::new(), flags: 0, keys: vec![], ud: if i % 20_000 == 0 || i == 65_536 { Some(UserDataM { text: Some(format!("s{}", i)), color: None }) } else { None } });
        }
        out.push(("giant:65537-slices".into(), crate::encode::encode(&crate::program::compile(&sp, &mut rng, &v)).0));
    }
    out
}
