//! Serialises a `FileSpec` into Aseprite bytes and records a `FieldMap`:
//! for every field written, its offset, width, kind and name. Hostile
//! operators, truncation and fault enumerations use the map to aim at
//! "every length, count, index, offset and enum field".

use crate::model::*;
use std::io::Write as _;

#[derive(Clone, Copy, Debug, PartialEq, Eq, Hash, PartialOrd, Ord)]
pub enum Kind {
    Magic,
    Len,
    Count,
    Index,
    Offset,
    Size,
    Enum,
    Flag,
    Payload,
    Reserved,
    Value,
}

impl Kind {
    pub fn name(self) -> &'static str {
        match self {
            Kind::Magic => "magic",
            Kind::Len => "len",
            Kind::Count => "count",
            Kind::Index => "index",
            Kind::Offset => "offset",
            Kind::Size => "size",
            Kind::Enum => "enum",
            Kind::Flag => "flag",
            Kind::Payload => "payload",
            Kind::Reserved => "reserved",
            Kind::Value => "value",
        }
    }
    /// the kinds C04/C12 target field-by-field
    pub fn structural(self) -> bool {
        matches!(self, Kind::Magic | Kind::Len | Kind::Count | Kind::Index | Kind::Offset | Kind::Size | Kind::Enum | Kind::Flag)
    }
}

#[derive(Clone, Debug)]
pub struct Field {
    pub off: usize,
    pub width: usize,
    pub kind: Kind,
    pub name: String,
}

#[derive(Clone, Debug, Default)]
pub struct FieldMap {
    pub fields: Vec<Field>,
    /// (frame index, start offset, end offset) of each frame
    pub frames: Vec<(usize, usize, usize)>,
    /// (frame index, chunk index, type, start offset, end offset)
    pub chunks: Vec<(usize, usize, u16, usize, usize)>,
    /// end of the last frame (== file length minus trailer)
    pub end_of_frames: usize,
}

pub struct Writer {
    pub buf: Vec<u8>,
    pub map: FieldMap,
    prefix: String,
}

impl Writer {
    pub fn new() -> Writer {
        Writer { buf: Vec::new(), map: FieldMap::default(), prefix: String::new() }
    }
    fn rec(&mut self, width: usize, kind: Kind, name: &str) {
        let nm = if self.prefix.is_empty() { name.to_string() } else { format!("{}.{}", self.prefix, name) };
        self.map.fields.push(Field { off: self.buf.len(), width, kind, name: nm });
    }
    pub fn u8(&mut self, kind: Kind, name: &str, v: u8) {
        self.rec(1, kind, name);
        self.buf.push(v);
    }
    pub fn u16(&mut self, kind: Kind, name: &str, v: u16) {
        self.rec(2, kind, name);
        self.buf.extend_from_slice(&v.to_le_bytes());
    }
    pub fn i16(&mut self, kind: Kind, name: &str, v: i16) {
        self.rec(2, kind, name);
        self.buf.extend_from_slice(&v.to_le_bytes());
    }
    pub fn u32(&mut self, kind: Kind, name: &str, v: u32) {
        self.rec(4, kind, name);
        self.buf.extend_from_slice(&v.to_le_bytes());
    }
    pub fn i32(&mut self, kind: Kind, name: &str, v: i32) {
        self.rec(4, kind, name);
        self.buf.extend_from_slice(&v.to_le_bytes());
    }
    pub fn bytes(&mut self, kind: Kind, name: &str, v: &[u8]) {
        if !v.is_empty() {
            self.rec(v.len(), kind, name);
        }
        self.buf.extend_from_slice(v);
    }
    pub fn string(&mut self, name: &str, s: &str) {
        self.u16(Kind::Len, &format!("{}.len", name), s.len() as u16);
        self.bytes(Kind::Payload, name, s.as_bytes());
    }
    pub fn patch_u32(&mut self, off: usize, v: u32) {
        self.buf[off..off + 4].copy_from_slice(&v.to_le_bytes());
    }
    pub fn patch_u16(&mut self, off: usize, v: u16) {
        self.buf[off..off + 2].copy_from_slice(&v.to_le_bytes());
    }
}

pub fn adler32(data: &[u8]) -> u32 {
    let mut a: u32 = 1;
    let mut b: u32 = 0;
    for chunk in data.chunks(5552) {
        for x in chunk {
            a += *x as u32;
            b += a;
        }
        a %= 65521;
        b %= 65521;
    }
    (b << 16) | a
}

/// zlib stream made only of stored deflate blocks (no compression at all).
pub fn zlib_stored(data: &[u8], block: usize) -> Vec<u8> {
    let block = block.clamp(1, 65535);
    let mut out = vec![0x78, 0x01];
    if data.is_empty() {
        out.extend_from_slice(&[1, 0, 0, 0xff, 0xff]);
    } else {
        let n = (data.len() + block - 1) / block;
        for (i, c) in data.chunks(block).enumerate() {
            out.push(if i + 1 == n { 1 } else { 0 });
            let l = c.len() as u16;
            out.extend_from_slice(&l.to_le_bytes());
            out.extend_from_slice(&(!l).to_le_bytes());
            out.extend_from_slice(c);
        }
    }
    out.extend_from_slice(&adler32(data).to_be_bytes());
    out
}

/// stored blocks under a header with CINFO = wbits (window 256 B .. 32 KiB); FLG makes the header a multiple of 31
pub fn zlib_stored_win(data: &[u8], block: usize, wbits: u8) -> Vec<u8> {
    let mut out = zlib_stored(data, block);
    let cmf: u8 = ((wbits & 7) << 4) | 8;
    let mut flg: u8 = 0;
    while ((cmf as u32) * 256 + flg as u32) % 31 != 0 {
        flg += 1;
    }
    out[0] = cmf;
    out[1] = flg;
    out
}

pub fn zlib_level(data: &[u8], level: u32) -> Vec<u8> {
    let mut e = flate2::write::ZlibEncoder::new(Vec::new(), flate2::Compression::new(level.min(9)));
    e.write_all(data).unwrap();
    e.finish().unwrap()
}

pub fn compress(data: &[u8], storage: &Storage) -> Vec<u8> {
    match storage {
        Storage::Raw => data.to_vec(),
        Storage::Zlib(l) => zlib_level(data, *l),
        Storage::Stored(b) => zlib_stored(data, *b),
        Storage::StoredWin(b, w) => zlib_stored_win(data, *b, *w),
    }
}

fn write_user_data(w: &mut Writer, ud: &UserDataM, flag_junk: u32) {
    let flags = (ud.text.is_some() as u32) | ((ud.color.is_some() as u32) << 1) | (flag_junk & !7);
    w.u32(Kind::Flag, "flags", flags);
    if let Some(t) = &ud.text {
        w.string("text", t);
    }
    if let Some(c) = &ud.color {
        w.bytes(Kind::Value, "color", c);
    }
}

pub fn chunk_type(spec: &ChunkSpec) -> u16 {
    match spec {
        ChunkSpec::Layer { .. } => 0x2004,
        ChunkSpec::Cel { .. } => 0x2005,
        ChunkSpec::CelExtra => 0x2006,
        ChunkSpec::ColorProfile { .. } => 0x2007,
        ChunkSpec::ExtFiles { .. } => 0x2008,
        ChunkSpec::Mask => 0x2016,
        ChunkSpec::Path => 0x2017,
        ChunkSpec::Tags { .. } => 0x2018,
        ChunkSpec::Palette { .. } => 0x2019,
        ChunkSpec::UserData(_) => 0x2020,
        ChunkSpec::Slice { .. } => 0x2022,
        ChunkSpec::Tileset { .. } => 0x2023,
        ChunkSpec::OldPalette { kind, .. } => *kind,
        ChunkSpec::Raw { ty, .. } => *ty,
        ChunkSpec::Ignorable { ty, .. } => *ty,
    }
}

fn write_chunk_body(w: &mut Writer, spec: &ChunkSpec, fmt: Fmt, flag_junk: u32, opacity_override: Option<u8>) {
    match spec {
        ChunkSpec::Layer { l, junk } => {
            w.u16(Kind::Flag, "flags", l.flags);
            let (ty, ts) = match l.kind {
                LayerKind::Image => (0u16, None),
                LayerKind::Group => (1, None),
                LayerKind::Tilemap(id) => (2, Some(id)),
            };
            w.u16(Kind::Enum, "type", ty);
            w.u16(Kind::Index, "level", l.level);
            w.u16(Kind::Reserved, "default_w", junk.default_w);
            w.u16(Kind::Reserved, "default_h", junk.default_h);
            w.u16(Kind::Enum, "blend", l.blend);
            w.u8(Kind::Value, "opacity", opacity_override.unwrap_or(l.opacity));
            w.u8(Kind::Reserved, "r1", junk.r1);
            w.u16(Kind::Reserved, "r2", junk.r2);
            w.string("name", &l.name);
            if let Some(id) = ts {
                w.u32(Kind::Index, "tileset", id);
            }
        }
        ChunkSpec::Cel { layer, c, storage, reserved, cel_type_override } => {
            w.u16(Kind::Index, "layer", *layer);
            w.i16(Kind::Offset, "x", c.x);
            w.i16(Kind::Offset, "y", c.y);
            w.u8(Kind::Value, "opacity", c.opacity);
            let ty: u16 = match (&c.content, storage) {
                (CelContentM::Image { .. }, Storage::Raw) => 0,
                (CelContentM::Image { .. }, _) => 2,
                (CelContentM::Link(_), _) => 1,
                (CelContentM::Tilemap { .. }, _) => 3,
            };
            w.u16(Kind::Enum, "type", cel_type_override.unwrap_or(ty));
            w.bytes(Kind::Reserved, "reserved", reserved);
            match &c.content {
                CelContentM::Image { w: cw, h: ch, pixels } => {
                    w.u16(Kind::Size, "w", *cw);
                    w.u16(Kind::Size, "h", *ch);
                    let data = compress(pixels, storage);
                    w.bytes(Kind::Payload, "pixels", &data);
                }
                CelContentM::Link(f) => {
                    w.u16(Kind::Index, "link", *f);
                }
                CelContentM::Tilemap { w: tw, h: th, tiles, masks } => {
                    w.u16(Kind::Size, "w", *tw);
                    w.u16(Kind::Size, "h", *th);
                    w.u16(Kind::Enum, "bits", 32);
                    w.u32(Kind::Flag, "mask_id", masks[0]);
                    w.u32(Kind::Flag, "mask_x", masks[1]);
                    w.u32(Kind::Flag, "mask_y", masks[2]);
                    w.u32(Kind::Flag, "mask_r", masks[3]);
                    w.bytes(Kind::Reserved, "tm_reserved", &[0u8; 10]);
                    let mut raw = Vec::with_capacity(tiles.len() * 4);
                    for t in tiles {
                        raw.extend_from_slice(&t.to_le_bytes());
                    }
                    let st = if *storage == Storage::Raw { Storage::Zlib(6) } else { storage.clone() };
                    let data = compress(&raw, &st);
                    w.bytes(Kind::Payload, "tiles", &data);
                }
            }
        }
        ChunkSpec::Slice { s, reserved } => {
            w.u32(Kind::Count, "keys", s.keys.len() as u32);
            w.u32(Kind::Flag, "flags", s.flags);
            w.u32(Kind::Reserved, "reserved", *reserved);
            w.string("name", &s.name);
            for (i, k) in s.keys.iter().enumerate() {
                let p = format!("key{}", i);
                w.u32(Kind::Index, &format!("{}.frame", p), k.frame);
                w.i32(Kind::Value, &format!("{}.x", p), k.x);
                w.i32(Kind::Value, &format!("{}.y", p), k.y);
                w.u32(Kind::Value, &format!("{}.w", p), k.w);
                w.u32(Kind::Value, &format!("{}.h", p), k.h);
                if s.flags & 1 != 0 {
                    let c = k.center.unwrap_or((0, 0, 0, 0));
                    w.i32(Kind::Value, &format!("{}.cx", p), c.0);
                    w.i32(Kind::Value, &format!("{}.cy", p), c.1);
                    w.u32(Kind::Value, &format!("{}.cw", p), c.2);
                    w.u32(Kind::Value, &format!("{}.ch", p), c.3);
                }
                if s.flags & 2 != 0 {
                    let c = k.pivot.unwrap_or((0, 0));
                    w.i32(Kind::Value, &format!("{}.px", p), c.0);
                    w.i32(Kind::Value, &format!("{}.py", p), c.1);
                }
            }
        }
        ChunkSpec::Tags { tags, reserved, tag_reserved } => {
            w.u16(Kind::Count, "count", tags.len() as u16);
            w.bytes(Kind::Reserved, "reserved", reserved);
            for (i, t) in tags.iter().enumerate() {
                let p = format!("tag{}", i);
                w.u16(Kind::Index, &format!("{}.from", p), t.from);
                w.u16(Kind::Index, &format!("{}.to", p), t.to);
                w.u8(Kind::Enum, &format!("{}.dir", p), t.dir);
                w.u16(Kind::Value, &format!("{}.repeat", p), t.repeat);
                w.bytes(Kind::Reserved, &format!("{}.reserved", p), tag_reserved);
                w.u32(Kind::Reserved, &format!("{}.color", p), t.color);
                w.string(&format!("{}.name", p), &t.name);
            }
        }
        ChunkSpec::Palette { total, first, entries, reserved } => {
            w.u32(Kind::Count, "total", *total);
            w.u32(Kind::Index, "first", *first);
            w.u32(Kind::Index, "last", first.wrapping_add(entries.len() as u32).wrapping_sub(1));
            w.bytes(Kind::Reserved, "reserved", reserved);
            for (i, e) in entries.iter().enumerate() {
                let p = format!("e{}", i);
                w.u16(Kind::Flag, &format!("{}.flags", p), (e.flags_extra & !1) | e.name.is_some() as u16);
                w.bytes(Kind::Value, &format!("{}.rgba", p), &e.rgba);
                if let Some(nm) = &e.name {
                    w.string(&format!("{}.name", p), nm);
                }
            }
        }
        ChunkSpec::OldPalette { packets, .. } => {
            w.u16(Kind::Count, "packets", packets.len() as u16);
            for (i, (skip, cols)) in packets.iter().enumerate() {
                let p = format!("p{}", i);
                w.u8(Kind::Offset, &format!("{}.skip", p), *skip);
                w.u8(Kind::Count, &format!("{}.count", p), (cols.len() % 256) as u8);
                for c in cols {
                    w.bytes(Kind::Value, &format!("{}.rgb", p), c);
                }
            }
        }
        ChunkSpec::UserData(ud) => write_user_data(w, ud, flag_junk),
        ChunkSpec::ExtFiles { files, reserved } => {
            w.u32(Kind::Count, "count", files.len() as u32);
            w.bytes(Kind::Reserved, "reserved", reserved);
            for (i, f) in files.iter().enumerate() {
                let p = format!("f{}", i);
                w.u32(Kind::Index, &format!("{}.id", p), f.id);
                w.bytes(Kind::Reserved, &format!("{}.reserved", p), &[0u8; 8]);
                w.string(&format!("{}.name", p), &f.name);
            }
        }
        ChunkSpec::Tileset { t, level, reserved } => {
            w.u32(Kind::Index, "id", t.id);
            w.u32(Kind::Flag, "flags", t.flags);
            w.u32(Kind::Count, "count", t.count);
            w.u16(Kind::Size, "tw", t.tw);
            w.u16(Kind::Size, "th", t.th);
            w.i16(Kind::Value, "base", t.base_index);
            w.bytes(Kind::Reserved, "reserved", reserved);
            w.string("name", &t.name);
            if t.flags & TS_LINK != 0 {
                let e = t.ext.unwrap_or((0, 0));
                w.u32(Kind::Index, "ext_file", e.0);
                w.u32(Kind::Index, "ext_tileset", e.1);
            }
            if t.flags & TS_EMBED != 0 {
                let data = zlib_level(&t.pixels, *level);
                w.u32(Kind::Len, "clen", data.len() as u32);
                w.bytes(Kind::Payload, "pixels", &data);
            }
        }
        ChunkSpec::ColorProfile { ty, flags, gamma, icc } => {
            w.u16(Kind::Enum, "type", *ty);
            w.u16(Kind::Flag, "flags", *flags);
            w.u32(Kind::Value, "gamma", *gamma);
            w.bytes(Kind::Reserved, "reserved", &[0u8; 8]);
            if let Some(d) = icc {
                w.u32(Kind::Len, "icc_len", d.len() as u32);
                w.bytes(Kind::Payload, "icc", d);
            }
        }
        ChunkSpec::CelExtra => {
            w.u32(Kind::Flag, "flags", 1);
            w.bytes(Kind::Value, "bounds", &[0, 0, 1, 0, 0, 0, 2, 0, 0, 0, 3, 0, 0, 0, 4, 0]);
            w.bytes(Kind::Reserved, "reserved", &[0u8; 16]);
        }
        ChunkSpec::Mask => {
            w.i16(Kind::Value, "x", 1);
            w.i16(Kind::Value, "y", 2);
            w.u16(Kind::Size, "w", 8);
            w.u16(Kind::Size, "h", 1);
            w.bytes(Kind::Reserved, "reserved", &[0u8; 8]);
            w.string("name", "mask");
            w.bytes(Kind::Payload, "bits", &[0xaa]);
        }
        ChunkSpec::Path => {}
        ChunkSpec::Raw { data, .. } | ChunkSpec::Ignorable { data, .. } => {
            w.bytes(Kind::Payload, "data", data);
        }
    }
    let _ = fmt;
}

pub fn encode(spec: &FileSpec) -> (Vec<u8>, FieldMap) {
    let mut w = Writer::new();
    let h = &spec.header;
    w.prefix = "hdr".into();
    let size_off = w.buf.len();
    w.u32(Kind::Len, "file_size", 0);
    w.u16(Kind::Magic, "magic", h.magic);
    w.u16(Kind::Count, "frames", h.frames);
    w.u16(Kind::Size, "width", h.width);
    w.u16(Kind::Size, "height", h.height);
    w.u16(Kind::Enum, "depth", h.depth);
    w.u32(Kind::Reserved, "flags", h.flags);
    w.u16(Kind::Reserved, "speed", h.speed);
    w.u32(Kind::Reserved, "ph1", h.ph1);
    w.u32(Kind::Reserved, "ph2", h.ph2);
    w.u8(Kind::Index, "transparent", h.transparent_index);
    w.bytes(Kind::Reserved, "ignore", &h.ignore);
    w.u16(Kind::Reserved, "num_colors", h.num_colors);
    w.u8(Kind::Enum, "pixel_w", h.pixel_w);
    w.u8(Kind::Enum, "pixel_h", h.pixel_h);
    for (i, g) in h.grid.iter().enumerate() {
        w.u16(Kind::Reserved, &format!("grid{}", i), *g);
    }
    let mut res = h.reserved.clone();
    res.resize(84, 0);
    w.bytes(Kind::Reserved, "reserved", &res);

    for (fi, fr) in spec.frames.iter().enumerate() {
        let fstart = w.buf.len();
        w.prefix = format!("f{}", fi);
        let bytes_off = w.buf.len();
        w.u32(Kind::Len, "bytes", 0);
        w.u16(Kind::Magic, "magic", fr.magic);
        let n = fr.chunks.len() as u32;
        let (old, new) = match fr.count_style {
            CountStyle::Both => (n.min(0xFFFF) as u16, if n < 0xFFFF { n } else { n }),
            CountStyle::OldOnly => (n.min(0xFFFF) as u16, 0),
            CountStyle::NewOnly => (0xFFFF, n),
        };
        w.u16(Kind::Count, "old_chunks", old);
        w.u16(Kind::Value, "duration", fr.duration);
        w.u16(Kind::Reserved, "reserved", fr.reserved);
        w.u32(Kind::Count, "new_chunks", new);
        for (ci, item) in fr.chunks.iter().enumerate() {
            let cstart = w.buf.len();
            let ty = chunk_type(&item.spec);
            w.prefix = format!("f{}.c{}:{}", fi, ci, item.spec.kind_name());
            let csize_off = w.buf.len();
            w.u32(Kind::Len, "size", 0);
            w.u16(Kind::Enum, "ctype", ty);
            write_chunk_body(&mut w, &item.spec, spec.fmt, item.flag_junk, item.opacity_override);
            w.bytes(Kind::Reserved, "pad", &item.pad);
            let cend = w.buf.len();
            w.patch_u32(csize_off, (cend - cstart) as u32);
            w.map.chunks.push((fi, ci, ty, cstart, cend));
        }
        let fend = w.buf.len();
        w.patch_u32(bytes_off, fr.bytes_override.unwrap_or((fend - fstart) as u32));
        w.map.frames.push((fi, fstart, fend));
    }
    w.map.end_of_frames = w.buf.len();
    w.prefix = String::new();
    w.bytes(Kind::Reserved, "trailer", &spec.trailer);
    let total = w.buf.len() as u32;
    w.patch_u32(size_off, h.file_size.unwrap_or(total));
    (w.buf, w.map)
}

/// Independent chunk walker for files not produced by `encode` (the GUI-made
/// corpus): recovers frame / chunk boundaries and the header-level fields.
pub fn walk_file(bytes: &[u8]) -> Option<FieldMap> {
    let mut map = FieldMap::default();
    let rd16 = |o: usize| -> Option<u16> { bytes.get(o..o + 2).map(|b| u16::from_le_bytes([b[0], b[1]])) };
    let rd32 = |o: usize| -> Option<u32> { bytes.get(o..o + 4).map(|b| u32::from_le_bytes([b[0], b[1], b[2], b[3]])) };
    if rd16(4)? != 0xA5E0 {
        return None;
    }
    let hdr = [
        (0, 4, Kind::Len, "hdr.file_size"),
        (4, 2, Kind::Magic, "hdr.magic"),
        (6, 2, Kind::Count, "hdr.frames"),
        (8, 2, Kind::Size, "hdr.width"),
        (10, 2, Kind::Size, "hdr.height"),
        (12, 2, Kind::Enum, "hdr.depth"),
        (28, 1, Kind::Index, "hdr.transparent"),
        (34, 1, Kind::Enum, "hdr.pixel_w"),
        (35, 1, Kind::Enum, "hdr.pixel_h"),
    ];
    for (off, width, kind, name) in hdr {
        map.fields.push(Field { off, width, kind, name: name.to_string() });
    }
    let nframes = rd16(6)? as usize;
    let mut off = 128;
    for fi in 0..nframes {
        let fstart = off;
        let fbytes = rd32(off)? as usize;
        if rd16(off + 4)? != 0xF1FA {
            return None;
        }
        let old = rd16(off + 6)? as u32;
        let new = rd32(off + 12)?;
        map.fields.push(Field { off, width: 4, kind: Kind::Len, name: format!("f{}.bytes", fi) });
        map.fields.push(Field { off: off + 4, width: 2, kind: Kind::Magic, name: format!("f{}.magic", fi) });
        map.fields.push(Field { off: off + 6, width: 2, kind: Kind::Count, name: format!("f{}.old_chunks", fi) });
        map.fields.push(Field { off: off + 12, width: 4, kind: Kind::Count, name: format!("f{}.new_chunks", fi) });
        let n = if new == 0 { old } else { new };
        let mut co = off + 16;
        for ci in 0..n as usize {
            let cs = rd32(co)? as usize;
            let ty = rd16(co + 4)?;
            if cs < 6 || co + cs > bytes.len() {
                return None;
            }
            map.fields.push(Field { off: co, width: 4, kind: Kind::Len, name: format!("f{}.c{}.size", fi, ci) });
            map.fields.push(Field { off: co + 4, width: 2, kind: Kind::Enum, name: format!("f{}.c{}.ctype", fi, ci) });
            // a few well-known structural fields inside chunk bodies
            let b = co + 6;
            match ty {
                0x2004 => {
                    for (o, wd, k, nm) in [(0, 2, Kind::Flag, "flags"), (2, 2, Kind::Enum, "type"), (4, 2, Kind::Index, "level"), (10, 2, Kind::Enum, "blend"), (16, 2, Kind::Len, "name.len")] {
                        map.fields.push(Field { off: b + o, width: wd, kind: k, name: format!("f{}.c{}:layer.{}", fi, ci, nm) });
                    }
                }
                0x2005 => {
                    for (o, wd, k, nm) in [(0, 2, Kind::Index, "layer"), (2, 2, Kind::Offset, "x"), (4, 2, Kind::Offset, "y"), (7, 2, Kind::Enum, "type"), (16, 2, Kind::Size, "w"), (18, 2, Kind::Size, "h")] {
                        if o + wd <= cs - 6 {
                            map.fields.push(Field { off: b + o, width: wd, kind: k, name: format!("f{}.c{}:cel.{}", fi, ci, nm) });
                        }
                    }
                }
                0x2019 => {
                    for (o, wd, k, nm) in [(0, 4, Kind::Count, "total"), (4, 4, Kind::Index, "first"), (8, 4, Kind::Index, "last")] {
                        map.fields.push(Field { off: b + o, width: wd, kind: k, name: format!("f{}.c{}:palette.{}", fi, ci, nm) });
                    }
                }
                0x2018 => {
                    map.fields.push(Field { off: b, width: 2, kind: Kind::Count, name: format!("f{}.c{}:tags.count", fi, ci) });
                }
                0x2022 => {
                    map.fields.push(Field { off: b, width: 4, kind: Kind::Count, name: format!("f{}.c{}:slice.keys", fi, ci) });
                    map.fields.push(Field { off: b + 4, width: 4, kind: Kind::Flag, name: format!("f{}.c{}:slice.flags", fi, ci) });
                }
                0x2023 => {
                    for (o, wd, k, nm) in [(0, 4, Kind::Index, "id"), (4, 4, Kind::Flag, "flags"), (8, 4, Kind::Count, "count"), (12, 2, Kind::Size, "tw"), (14, 2, Kind::Size, "th")] {
                        map.fields.push(Field { off: b + o, width: wd, kind: k, name: format!("f{}.c{}:tileset.{}", fi, ci, nm) });
                    }
                }
                _ => {}
            }
            map.chunks.push((fi, ci, ty, co, co + cs));
            co += cs;
        }
        off = fstart + fbytes;
        if co > off {
            return None;
        }
        map.frames.push((fi, fstart, off));
    }
    map.end_of_frames = off;
    Some(map)
}
