//! API walker (C05, also used by C16/C19 on hostile-but-loaded inputs): calls
//! every documented accessor with IN-RANGE arguments in PRNG-shuffled order
//! and checks documented image dimensions. A panic is the caller's to catch.

use crate::rng::Rng;
use asefile::*;
use std::fmt::Write;

/// discards formatted output, counting bytes; stops the formatter once
/// `limit` bytes were produced (so the harness cannot burn unbounded CPU).
pub struct Sink(pub u64, pub u64);
impl Write for Sink {
    fn write_str(&mut self, s: &str) -> std::fmt::Result {
        self.0 += s.len() as u64;
        if self.0 > self.1 {
            return Err(std::fmt::Error);
        }
        Ok(())
    }
}

#[derive(Default, Debug, Clone)]
pub struct WalkStats {
    pub calls: u64,
    pub images: u64,
    pub skipped_big: u64,
    pub debug_bytes: u64,
    pub dim_error: Option<String>,
}

pub const MAX_RENDER_PX: u64 = 4 * 1024 * 1024;
pub const MAX_DEBUG_PX: u64 = 256 * 1024;

#[derive(Clone, Copy)]
enum Op {
    Basics,
    Layer(u32),
    Frame(u32),
    FrameImage(u32),
    Cel(u32, u32),
    CelImage(u32, u32),
    Tilemap(u32, u32),
    Tileset(u32),
    Tags,
    Slices,
    Palette,
    ExtFiles,
    Debug,
}

pub fn walk(ase: &AsepriteFile, seed: u64, budget_ops: usize) -> WalkStats {
    let mut st = WalkStats::default();
    let mut rng = Rng::new(seed);
    let nl = ase.num_layers();
    let nf = ase.num_frames();
    let canvas_px = ase.width() as u64 * ase.height() as u64;
    let mut ops: Vec<Op> = vec![Op::Basics, Op::Tags, Op::Slices, Op::Palette, Op::ExtFiles, Op::Debug];
    // sample entity indices when there are very many
    let pick_ids = |n: u32, cap: usize, rng: &mut Rng| -> Vec<u32> {
        if n as usize <= cap {
            (0..n).collect()
        } else {
            let mut v: Vec<u32> = vec![0, 1, n - 1, n - 2, n / 2];
            while v.len() < cap {
                v.push(rng.below(n as u64) as u32);
            }
            v
        }
    };
    let lids = pick_ids(nl, 48, &mut rng);
    let fids = pick_ids(nf, 24, &mut rng);
    for l in &lids {
        ops.push(Op::Layer(*l));
    }
    for f in &fids {
        ops.push(Op::Frame(*f));
        ops.push(Op::FrameImage(*f));
    }
    for f in &fids {
        for l in &lids {
            ops.push(Op::Cel(*f, *l));
            ops.push(Op::CelImage(*f, *l));
            ops.push(Op::Tilemap(*l, *f));
        }
    }
    let mut tsids: Vec<u32> = ase.tilesets().iter().map(|t| t.id()).collect();
    tsids.sort_unstable();
    for id in tsids.iter().take(16) {
        ops.push(Op::Tileset(*id));
    }
    rng.shuffle(&mut ops);
    ops.truncate(budget_ops);
    let total_pixels_hint: u64 = canvas_px;
    for op in ops {
        st.calls += 1;
        match op {
            Op::Basics => {
                let _ = (ase.width(), ase.height(), ase.size(), ase.num_frames(), ase.num_layers(), ase.pixel_format(), ase.is_indexed_color(), ase.transparent_color_index(), ase.pixel_format().bytes_per_pixel(), ase.pixel_format().transparent_color_index());
                let _ = ase.sprite_user_data();
                let mut n = 0;
                for l in ase.layers() {
                    let _ = l.id();
                    n += 1;
                }
                if n != nl {
                    st.dim_error = Some(format!("layers() yielded {} items for {} layers", n, nl));
                }
                let _ = ase.layer_by_name("Layer 1");
                let _ = ase.tilemap(nl, 0).is_some();
            }
            Op::Layer(l) => {
                let ly = ase.layer(l);
                let _ = (ly.id(), ly.flags(), ly.name().len(), ly.blend_mode(), ly.opacity(), ly.layer_type(), ly.is_tilemap(), ly.user_data());
                let _ = ly.is_visible();
                // walk the ancestor chain
                let mut cur = ly.parent().map(|p| p.id());
                let mut depth = 0u32;
                while let Some(pid) = cur {
                    depth += 1;
                    if depth > nl + 1 {
                        st.dim_error = Some(format!("parent chain of layer {} longer than the number of layers", l));
                        break;
                    }
                    cur = ase.layer(pid).parent().map(|p| p.id());
                }
                let _ = ase.layer_by_name(ly.name()).map(|x| x.id());
            }
            Op::Frame(f) => {
                let fr = ase.frame(f);
                let _ = (fr.id(), fr.duration());
            }
            Op::FrameImage(f) => {
                if canvas_px > MAX_RENDER_PX {
                    st.skipped_big += 1;
                    continue;
                }
                let img = ase.frame(f).image();
                st.images += 1;
                if img.width() as usize != ase.width() || img.height() as usize != ase.height() {
                    st.dim_error = Some(format!("frame({}).image() is {}x{} for canvas {}x{}", f, img.width(), img.height(), ase.width(), ase.height()));
                }
            }
            Op::Cel(f, l) => {
                let a = ase.cel(f, l);
                let _ = (a.frame(), a.layer(), a.is_empty(), a.top_left(), a.is_tilemap(), a.user_data());
                let fr = ase.frame(f);
                let b = fr.layer(l);
                let _ = (b.is_empty(), b.top_left());
                let ly = ase.layer(l);
                let c = ly.frame(f);
                let _ = (c.is_empty(), c.top_left());
            }
            Op::CelImage(f, l) => {
                if canvas_px > MAX_RENDER_PX {
                    st.skipped_big += 1;
                    continue;
                }
                let img = ase.cel(f, l).image();
                st.images += 1;
                if img.width() as usize != ase.width() || img.height() as usize != ase.height() {
                    st.dim_error = Some(format!("cel({},{}).image() is {}x{} for canvas {}x{}", f, l, img.width(), img.height(), ase.width(), ase.height()));
                }
            }
            Op::Tilemap(l, f) => {
                if let Some(tm) = ase.tilemap(l, f) {
                    let (w, h) = (tm.width(), tm.height());
                    let _ = (tm.tile_size(), tm.tile_offsets(), tm.pixel_offsets(), tm.tileset().id());
                    for (x, y) in crate::observe::tile_probe_coords(w.min(64), h.min(64)) {
                        let t = tm.tile(x, y);
                        let _ = t.id();
                    }
                    // every in-range coordinate of small maps, corners of big ones
                    for (x, y) in [(0u32, 0u32), (w.saturating_sub(1), 0), (0, h.saturating_sub(1)), (w.saturating_sub(1), h.saturating_sub(1))] {
                        let _ = tm.tile(x, y).id();
                    }
                    if canvas_px <= MAX_RENDER_PX {
                        let img = tm.image();
                        st.images += 1;
                        if img.width() as usize != ase.width() || img.height() as usize != ase.height() {
                            st.dim_error = Some(format!("tilemap({},{}).image() is {}x{}", l, f, img.width(), img.height()));
                        }
                    } else {
                        st.skipped_big += 1;
                    }
                }
            }
            Op::Tileset(id) => {
                if let Some(ts) = ase.tilesets().get(id) {
                    let sz = ts.tile_size();
                    let _ = (ts.id(), ts.empty_tile_is_id_zero(), ts.tile_count(), ts.base_index(), ts.name().len(), ts.external_file().map(|e| (e.external_file_id(), e.tileset_id())));
                    let px = ts.tile_count() as u64 * sz.width() as u64 * sz.height() as u64;
                    if px <= MAX_RENDER_PX {
                        let img = ts.image();
                        st.images += 1;
                        if img.width() != sz.width() as u32 || img.height() as u64 != sz.height() as u64 * ts.tile_count() as u64 {
                            st.dim_error = Some(format!("tileset {} image() is {}x{} for {} tiles of {}x{}", id, img.width(), img.height(), ts.tile_count(), sz.width(), sz.height()));
                        }
                        let n = ts.tile_count();
                        let mut idx: Vec<u32> = if n <= 8 { (0..n).collect() } else { vec![0, 1, n / 2, n - 2, n - 1] };
                        if n > 8 {
                            idx.push(rng.below(n as u64) as u32);
                        }
                        for i in idx {
                            let ti = ts.tile_image(i);
                            st.images += 1;
                            if ti.width() != sz.width() as u32 || ti.height() != sz.height() as u32 {
                                st.dim_error = Some(format!("tileset {} tile_image({}) is {}x{} for tile size {}x{}", id, i, ti.width(), ti.height(), sz.width(), sz.height()));
                            }
                        }
                    } else if sz.height() as u64 * ts.tile_count() as u64 > u32::MAX as u64 {
                    // the stacked image cannot exist (its height does not fit an image dimension): a sprite that loaded
                    // with such a tileset must still not panic or hand out an image of other dimensions
                    let img = ts.image();
                    st.images += 1;
                    st.dim_error = Some(format!("tileset {} image() returned {}x{} for {} tiles of {}x{} (stacked height {} does not fit an image)", id, img.width(), img.height(), ts.tile_count(), sz.width(), sz.height(), sz.height() as u64 * ts.tile_count() as u64));
                    } else {
                        st.skipped_big += 1;
                    }
                }
                let _ = (ase.tilesets().len(), ase.tilesets().is_empty());
            }
            Op::Tags => {
                let nt = ase.num_tags();
                for t in 0..nt.min(64) {
                    let tg = ase.tag(t);
                    let _ = (tg.name().len(), tg.from_frame(), tg.to_frame(), tg.animation_direction(), tg.repeat(), tg.user_data());
                    let _ = ase.get_tag(t).is_some();
                    let _ = ase.tag_by_name(tg.name()).is_some();
                }
                let _ = ase.get_tag(nt).is_none();
            }
            Op::Slices => {
                for s in ase.slices().iter().take(64) {
                    let _ = (s.name.len(), s.keys.len(), s.user_data.as_ref());
                    for k in s.keys.iter().take(64) {
                        let _ = (k.from_frame, k.origin, k.size, k.slice9.as_ref().map(|c| c.center_x), k.pivot);
                    }
                }
            }
            Op::Palette => {
                if let Some(p) = ase.palette() {
                    let _ = p.num_colors();
                    // the idiom the documentation suggests: indices 0..num_colors(), the count re-read every round
                    let mut i = 0u32;
                    while i < p.num_colors() && i < 2_000_000 {
                        if let Some(e) = p.color(i) {
                            let _ = e.raw_rgba8();
                        }
                        i += 1;
                    }
                    for i in (0..300u32).chain([65535, u32::MAX]) {
                        if let Some(e) = p.color(i) {
                            let _ = (e.id(), e.raw_rgba8(), e.red(), e.green(), e.blue(), e.alpha(), e.name());
                        }
                    }
                }
            }
            Op::ExtFiles => {
                for (k, v) in ase.external_files().map().iter().take(64) {
                    let _ = (k.value(), v.id(), v.name().len());
                    let _ = ase.external_file_by_id(k).is_some();
                }
            }
            Op::Debug => {
                // Debug output grows with the stored pixels; bounded so the harness cannot exhaust memory/time
                let _ = (total_pixels_hint, MAX_DEBUG_PX);
                // whole-sprite Debug; output beyond 32 MB is cut off by the sink
                let mut s = Sink(0, 32 << 20);
                let _ = write!(s, "{:?}", ase);
                st.debug_bytes += s.0;
            }
        }
    }
    st
}
