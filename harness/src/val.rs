//! Canonical observation tree. Both `observe(&AsepriteFile)` (what the API
//! reports) and `expect(&Sprite)` (what the file encodes) produce a `V`; the
//! monitor is `diff`, whose witness is the path of the first difference.

use std::fmt::Write;

#[derive(Clone, Debug, PartialEq)]
pub enum V {
    Nil,
    N(i64),
    S(String),
    /// raw bytes (names that must compare exactly, small blobs)
    B(Vec<u8>),
    /// an RGBA image; compared with "fully transparent pixels are equal
    /// regardless of RGB" only where `Img::loose` is set on BOTH sides.
    Img(Img),
    L(Vec<V>),
    M(Vec<(String, V)>),
}

#[derive(Clone, Debug, PartialEq)]
pub struct Img {
    pub w: u32,
    pub h: u32,
    pub px: Vec<u8>, // RGBA, row-major
    pub loose: bool,
}

impl Img {
    pub fn new(w: u32, h: u32) -> Img {
        Img { w, h, px: vec![0; (w as usize) * (h as usize) * 4], loose: true }
    }
    pub fn from_rgba(img: &image::RgbaImage, loose: bool) -> Img {
        Img { w: img.width(), h: img.height(), px: img.as_raw().clone(), loose }
    }
    pub fn get(&self, x: u32, y: u32) -> [u8; 4] {
        let i = ((y * self.w + x) * 4) as usize;
        [self.px[i], self.px[i + 1], self.px[i + 2], self.px[i + 3]]
    }
    pub fn put(&mut self, x: u32, y: u32, p: [u8; 4]) {
        let i = ((y * self.w + x) * 4) as usize;
        self.px[i..i + 4].copy_from_slice(&p);
    }
}

pub fn m(items: Vec<(&str, V)>) -> V {
    V::M(items.into_iter().map(|(k, v)| (k.to_string(), v)).collect())
}
pub fn n<T: Into<i64>>(x: T) -> V {
    V::N(x.into())
}
pub fn nu(x: usize) -> V {
    V::N(x as i64)
}
pub fn s(x: &str) -> V {
    V::S(x.to_string())
}
pub fn b(x: bool) -> V {
    V::N(x as i64)
}
pub fn opt<T>(x: Option<T>, f: impl FnOnce(T) -> V) -> V {
    match x {
        None => V::Nil,
        Some(t) => f(t),
    }
}

impl V {
    pub fn get(&self, key: &str) -> Option<&V> {
        if let V::M(items) = self {
            items.iter().find(|(k, _)| k == key).map(|(_, v)| v)
        } else {
            None
        }
    }
    pub fn short(&self) -> String {
        let mut s = String::new();
        self.fmt_short(&mut s, 0);
        if s.len() > 300 {
            let mut cut = 300;
            while !s.is_char_boundary(cut) {
                cut -= 1;
            }
            s.truncate(cut);
            s.push_str("...");
        }
        s
    }
    fn fmt_short(&self, out: &mut String, depth: usize) {
        match self {
            V::Nil => out.push_str("nil"),
            V::N(x) => {
                let _ = write!(out, "{}", x);
            }
            V::S(x) => {
                if x.len() > 60 {
                    let mut cut = 60;
                    while !x.is_char_boundary(cut) {
                        cut -= 1;
                    }
                    let _ = write!(out, "{:?}...(len {})", &x[..cut], x.len());
                } else {
                    let _ = write!(out, "{:?}", x);
                }
            }
            V::B(x) => {
                let _ = write!(out, "bytes[{}]:{}", x.len(), hex(&x[..x.len().min(24)]));
            }
            V::Img(i) => {
                let _ = write!(out, "img {}x{} #{:016x}", i.w, i.h, crate::rng::hash_bytes(&i.px));
            }
            V::L(xs) => {
                let _ = write!(out, "[{} items", xs.len());
                if depth < 2 {
                    for x in xs.iter().take(4) {
                        out.push_str(", ");
                        x.fmt_short(out, depth + 1);
                    }
                }
                out.push(']');
            }
            V::M(xs) => {
                out.push('{');
                for (i, (k, v)) in xs.iter().enumerate() {
                    if i > 0 {
                        out.push_str(", ");
                    }
                    if depth >= 2 || i >= 12 {
                        out.push_str("..");
                        break;
                    }
                    let _ = write!(out, "{}: ", k);
                    v.fmt_short(out, depth + 1);
                }
                out.push('}');
            }
        }
    }
    /// Stable 64-bit digest (images hashed exactly, no loose rule).
    pub fn digest(&self) -> u64 {
        let mut h = Hasher(0xcbf29ce484222325);
        self.feed(&mut h);
        crate::rng::mix(h.0)
    }
    fn feed(&self, h: &mut Hasher) {
        match self {
            V::Nil => h.b(&[0]),
            V::N(x) => {
                h.b(&[1]);
                h.b(&x.to_le_bytes())
            }
            V::S(x) => {
                h.b(&[2]);
                h.b(&(x.len() as u64).to_le_bytes());
                h.b(x.as_bytes())
            }
            V::B(x) => {
                h.b(&[3]);
                h.b(&(x.len() as u64).to_le_bytes());
                h.b(x)
            }
            V::Img(i) => {
                h.b(&[4]);
                h.b(&i.w.to_le_bytes());
                h.b(&i.h.to_le_bytes());
                if i.loose {
                    for p in i.px.chunks_exact(4) {
                        if p[3] == 0 {
                            h.b(&[0, 0, 0, 0])
                        } else {
                            h.b(p)
                        }
                    }
                } else {
                    h.b(&i.px)
                }
            }
            V::L(xs) => {
                h.b(&[5]);
                h.b(&(xs.len() as u64).to_le_bytes());
                for x in xs {
                    x.feed(h)
                }
            }
            V::M(xs) => {
                h.b(&[6]);
                h.b(&(xs.len() as u64).to_le_bytes());
                for (k, v) in xs {
                    h.b(k.as_bytes());
                    h.b(&[0xff]);
                    v.feed(h)
                }
            }
        }
    }
    /// Number of leaves (observations compared).
    pub fn leaves(&self) -> u64 {
        match self {
            V::L(xs) => xs.iter().map(|x| x.leaves()).sum(),
            V::M(xs) => xs.iter().map(|(_, x)| x.leaves()).sum(),
            V::Img(i) => 1 + (i.w as u64 * i.h as u64),
            _ => 1,
        }
    }
}

struct Hasher(u64);
impl Hasher {
    fn b(&mut self, bs: &[u8]) {
        for x in bs {
            self.0 ^= *x as u64;
            self.0 = self.0.wrapping_mul(0x100000001b3);
        }
    }
}

pub fn hex(bs: &[u8]) -> String {
    let mut s = String::with_capacity(bs.len() * 2);
    for b in bs {
        let _ = write!(s, "{:02x}", b);
    }
    s
}

pub fn unhex(s: &str) -> Vec<u8> {
    let s = s.as_bytes();
    let mut v = Vec::with_capacity(s.len() / 2);
    let d = |c: u8| -> u8 {
        match c {
            b'0'..=b'9' => c - b'0',
            b'a'..=b'f' => c - b'a' + 10,
            b'A'..=b'F' => c - b'A' + 10,
            _ => 0,
        }
    };
    let mut i = 0;
    while i + 1 < s.len() {
        v.push(d(s[i]) << 4 | d(s[i + 1]));
        i += 2;
    }
    v
}

#[derive(Clone, Debug)]
pub struct Diff {
    pub path: String,
    pub observed: String,
    pub expected: String,
}

impl std::fmt::Display for Diff {
    fn fmt(&self, f: &mut std::fmt::Formatter<'_>) -> std::fmt::Result {
        write!(f, "at {}: observed {} expected {}", self.path, self.observed, self.expected)
    }
}

/// First difference between what was observed and what was expected.
pub fn diff(observed: &V, expected: &V) -> Option<Diff> {
    let mut path = String::new();
    diff_at(observed, expected, &mut path)
}

fn mk(path: &str, o: String, e: String) -> Option<Diff> {
    Some(Diff { path: if path.is_empty() { "<root>".into() } else { path.to_string() }, observed: o, expected: e })
}

fn diff_at(o: &V, e: &V, path: &mut String) -> Option<Diff> {
    match (o, e) {
        (V::L(a), V::L(b)) => {
            if a.len() != b.len() {
                return mk(&format!("{}.len", path), a.len().to_string(), b.len().to_string());
            }
            for (i, (x, y)) in a.iter().zip(b.iter()).enumerate() {
                let l = path.len();
                let _ = write!(path, "[{}]", i);
                if let Some(d) = diff_at(x, y, path) {
                    return Some(d);
                }
                path.truncate(l);
            }
            None
        }
        (V::M(a), V::M(b)) => {
            if a.len() != b.len() || a.iter().zip(b.iter()).any(|(x, y)| x.0 != y.0) {
                let ka: Vec<&str> = a.iter().map(|x| x.0.as_str()).collect();
                let kb: Vec<&str> = b.iter().map(|x| x.0.as_str()).collect();
                return mk(&format!("{}.keys", path), format!("{:?}", ka), format!("{:?}", kb));
            }
            for ((k, x), (_, y)) in a.iter().zip(b.iter()) {
                let l = path.len();
                let _ = write!(path, ".{}", k);
                if let Some(d) = diff_at(x, y, path) {
                    return Some(d);
                }
                path.truncate(l);
            }
            None
        }
        (V::Img(a), V::Img(b)) => {
            if a.w != b.w || a.h != b.h {
                return mk(&format!("{}.dim", path), format!("{}x{}", a.w, a.h), format!("{}x{}", b.w, b.h));
            }
            if a.px.len() != b.px.len() {
                return mk(&format!("{}.buflen", path), a.px.len().to_string(), b.px.len().to_string());
            }
            if a.px == b.px {
                return None;
            }
            let loose = a.loose && b.loose;
            for (i, (p, q)) in a.px.chunks_exact(4).zip(b.px.chunks_exact(4)).enumerate() {
                if p != q && !(loose && p[3] == 0 && q[3] == 0) {
                    let x = i as u32 % a.w;
                    let y = i as u32 / a.w;
                    return mk(&format!("{}.px({},{})", path, x, y), format!("{:?}", p), format!("{:?}", q));
                }
            }
            None
        }
        _ => {
            if o == e {
                None
            } else {
                mk(path, o.short(), e.short())
            }
        }
    }
}
