//! `expect(&Sprite)`: what a file encoding this model must make the API
//! report, in exactly the shape `observe` produces.

use crate::model::*;
use crate::observe::{id_probe_ids, palette_probe_ids, tile_probe_coords, ObsOpts};
use crate::refrender;
use crate::val::*;

pub fn ud_v(ud: Option<&UserDataM>) -> V {
    opt(ud, |u| m(vec![("text", opt(u.text.as_ref(), |t| V::S(t.clone()))), ("color", opt(u.color.as_ref(), |c| V::B(c.to_vec())))]))
}

fn layer_type_v(k: LayerKind) -> V {
    match k {
        LayerKind::Image => s("image"),
        LayerKind::Group => s("group"),
        LayerKind::Tilemap(id) => V::S(format!("tilemap:{}", id)),
    }
}

fn tag_v(t: &TagM) -> V {
    m(vec![
        ("name", s(&t.name)),
        ("from", n(t.from)),
        ("to", n(t.to)),
        ("dir", n(t.dir)),
        ("repeat", if t.repeat == 0 { V::Nil } else { n(t.repeat) }),
        ("ud", ud_v(t.ud.as_ref())),
    ])
}

fn slice_v(sl: &SliceM) -> V {
    m(vec![
        ("name", s(&sl.name)),
        (
            "keys",
            V::L(sl
                .keys
                .iter()
                .map(|k| {
                    m(vec![
                        ("from_frame", n(k.frame)),
                        ("origin", V::L(vec![n(k.x), n(k.y)])),
                        ("size", V::L(vec![n(k.w), n(k.h)])),
                        ("slice9", if sl.flags & 1 != 0 { let c = k.center.unwrap_or((0, 0, 0, 0)); V::L(vec![n(c.0), n(c.1), n(c.2), n(c.3)]) } else { V::Nil }),
                        ("pivot", if sl.flags & 2 != 0 { let p = k.pivot.unwrap_or((0, 0)); V::L(vec![n(p.0), n(p.1)]) } else { V::Nil }),
                    ])
                })
                .collect()),
        ),
        ("ud", ud_v(sl.ud.as_ref())),
    ])
}

fn tileset_v(t: &TilesetM) -> V {
    m(vec![
        ("id", n(t.id)),
        ("empty_zero", b(t.flags & TS_ZERO_EMPTY != 0)),
        ("count", n(t.count)),
        ("tile_size", V::L(vec![n(t.tw), n(t.th)])),
        ("base_index", n(t.base_index)),
        ("name", s(&t.name)),
        ("ext", if t.flags & TS_LINK != 0 { let e = t.ext.unwrap_or((0, 0)); V::L(vec![n(e.0), n(e.1)]) } else { V::Nil }),
    ])
}

/// effective tilesets: later chunk with the same id replaces the earlier one
fn effective_tilesets(sp: &Sprite) -> Vec<&TilesetM> {
    // a later chunk with the same id replaces the earlier one
    let mut by_id: std::collections::BTreeMap<u32, &TilesetM> = Default::default();
    for t in &sp.tilesets {
        by_id.insert(t.id, t);
    }
    by_id.into_values().collect()
}

fn effective_ext(sp: &Sprite) -> Vec<&ExtFileM> {
    let mut by_id: std::collections::BTreeMap<u32, &ExtFileM> = Default::default();
    for t in &sp.ext_files {
        by_id.insert(t.id, t);
    }
    by_id.into_values().collect()
}

pub fn structure(sp: &Sprite, opts: &ObsOpts) -> V {
    let nl = sp.layers.len();
    let nf = sp.durations.len();
    let parents = sp.parents();
    let visible = sp.visible();
    let mut items: Vec<(&str, V)> = vec![
        ("width", n(sp.width)),
        ("height", n(sp.height)),
        ("size", V::L(vec![n(sp.width), n(sp.height)])),
        ("num_frames", nu(nf)),
        ("num_layers", nu(nl)),
        (
            "pixel_format",
            match sp.fmt {
                Fmt::Rgba => s("rgba"),
                Fmt::Gray => s("gray"),
                Fmt::Indexed => V::S(format!("indexed:{}", sp.transparent_index)),
            },
        ),
        ("transparent_color_index", if sp.fmt == Fmt::Indexed { n(sp.transparent_index) } else { V::Nil }),
        ("pf_transparent_color_index", if sp.fmt == Fmt::Indexed { n(sp.transparent_index) } else { V::Nil }),
        ("bytes_per_pixel", nu(sp.fmt.bpp())),
        ("is_indexed", b(sp.fmt == Fmt::Indexed)),
    ];
    items.push(("frames", V::L(sp.durations.iter().enumerate().map(|(i, d)| m(vec![("id", nu(i)), ("duration", n(*d))])).collect())));
    items.push((
        "layers",
        V::L(sp
            .layers
            .iter()
            .enumerate()
            .map(|(i, l)| {
                m(vec![
                    ("id", nu(i)),
                    ("name", s(&l.name)),
                    ("flags", n(l.flags & 0x7f)),
                    ("blend", n(l.blend)),
                    ("opacity", n(l.opacity)),
                    ("type", layer_type_v(l.kind)),
                    ("is_tilemap", b(matches!(l.kind, LayerKind::Tilemap(_)))),
                    ("parent", opt(parents[i], nu)),
                    ("visible", b(visible[i])),
                    ("ud", ud_v(l.ud.as_ref())),
                ])
            })
            .collect()),
    ));
    items.push(("layers_iter", V::L((0..nl).map(nu).collect())));
    items.push(("layer_by_name", V::L(sp.layers.iter().map(|l| nu(sp.layers.iter().position(|x| x.name == l.name).unwrap())).collect())));
    items.push(("layer_by_name_missing", V::Nil));
    let nt = sp.tags.len();
    items.push(("num_tags", nu(nt)));
    items.push(("tags", V::L(sp.tags.iter().map(tag_v).collect())));
    items.push(("get_tag", V::L(sp.tags.iter().map(tag_v).collect())));
    items.push(("get_tag_oob", V::L(vec![V::Nil, V::Nil, V::Nil, V::Nil])));
    items.push(("tag_by_name", V::L(sp.tags.iter().map(|t| nu(sp.tags.iter().position(|x| x.name == t.name).unwrap())).collect())));
    items.push(("tag_by_name_missing", V::Nil));
    items.push(("slices", V::L(sp.slices.iter().map(slice_v).collect())));
    items.push((
        "palette",
        opt(sp.palette.as_ref(), |p| {
            let ids = palette_probe_ids(opts);
            let mut found = Vec::new();
            for id in ids {
                if let Some(e) = p.get(&id) {
                    found.push(m(vec![("probe", n(id)), ("id", n(id)), ("rgba", V::B(e.rgba.to_vec())), ("getters", V::B(e.rgba.to_vec())), ("name", opt(e.name.as_ref(), |x| s(x)))]));
                }
            }
            m(vec![("num_colors", nu(p.len())), ("entries", V::L(found))])
        }),
    ));
    {
        let files = effective_ext(sp);
        items.push(("ext_files", V::L(files.iter().map(|f| m(vec![("key", n(f.id)), ("id_name", V::S(format!("{}\u{0}{}", f.id, f.name)))])).collect())));
        let probes = id_probe_ids(opts);
        let by_id: std::collections::HashMap<u32, &ExtFileM> = files.iter().map(|f| (f.id, *f)).collect();
        items.push((
            "ext_by_id",
            V::L(probes
                .iter()
                .filter_map(|id| by_id.get(id).map(|f| m(vec![("probe", n(*id)), ("routes_agree", b(true)), ("id", n(f.id)), ("name", s(&f.name))])))
                .collect()),
        ));
    }
    {
        let ts = effective_tilesets(sp);
        items.push(("tilesets_len", nu(ts.len())));
        items.push(("tilesets_is_empty", b(ts.is_empty())));
        items.push(("tilesets", V::L(ts.iter().map(|t| tileset_v(t)).collect())));
        let probes = id_probe_ids(opts);
        let known: std::collections::HashSet<u32> = ts.iter().map(|t| t.id).collect();
        items.push(("tilesets_get", V::L(probes.iter().filter(|id| known.contains(*id)).map(|id| V::L(vec![n(*id), n(*id)])).collect())));
    }
    items.push(("sprite_ud", ud_v(sp.sprite_ud.as_ref())));
    m(items)
}

pub fn cel_v(sp: &Sprite, f: u16, l: u16, image: bool) -> V {
    let c = sp.cels.get(&(f, l));
    let mut items = vec![
        ("frame", n(f)),
        ("layer", n(l)),
        ("is_empty", b(c.is_none())),
        ("top_left", match c { Some(c) => V::L(vec![n(c.x), n(c.y)]), None => V::L(vec![n(0), n(0)]) }),
        ("is_tilemap", b(matches!(c.map(|c| &c.content), Some(CelContentM::Tilemap { .. })))),
        ("ud", ud_v(c.and_then(|c| c.ud.as_ref()))),
    ];
    if image {
        items.push(("image", V::Img(refrender::render_cel(sp, f, l))));
    }
    m(items)
}

/// the slot of a layer whose index does not fit the cel chunk's 16-bit layer field: always absent
pub fn absent_cel_v(sp: &Sprite, f: u32, l: u32, image: bool) -> V {
    let mut items = vec![("frame", n(f)), ("layer", n(l)), ("is_empty", b(true)), ("top_left", V::L(vec![n(0), n(0)])), ("is_tilemap", b(false)), ("ud", ud_v(None))];
    if image {
        items.push(("image", V::Img(crate::val::Img::new(sp.width as u32, sp.height as u32))));
    }
    m(items)
}

pub fn cels(sp: &Sprite, images: bool) -> V {
    let nl = sp.layers.len();
    let nf = sp.durations.len();
    V::L((0..nf).map(|f| V::L((0..nl).map(|l| if l > u16::MAX as usize { absent_cel_v(sp, f as u32, l as u32, images) } else { cel_v(sp, f as u16, l as u16, images) }).collect())).collect())
}

pub fn frame_images(sp: &Sprite) -> V {
    V::L((0..sp.durations.len()).map(|f| V::Img(refrender::render_frame(sp, f as u16))).collect())
}

pub fn tileset_images(sp: &Sprite) -> V {
    V::L(effective_tilesets(sp)
        .iter()
        .map(|t| {
            m(vec![
                ("id", n(t.id)),
                ("image", V::Img(refrender::tileset_image(sp, t))),
                ("tiles", V::L(crate::observe::tile_sample(t.count).into_iter().map(|i| V::Img(refrender::tile_image(sp, t, i))).collect())),
            ])
        })
        .collect())
}

fn div_trunc(a: i32, b: i32) -> i32 {
    a / b
}

pub fn tilemaps(sp: &Sprite, images: bool) -> V {
    let mut out = Vec::new();
    for (l, layer) in sp.layers.iter().enumerate().take(65_536) {
        let tsid = match layer.kind {
            LayerKind::Tilemap(id) => id,
            _ => continue,
        };
        let ts = match sp.tileset(tsid) {
            Some(t) => t,
            None => continue,
        };
        for f in 0..sp.durations.len() {
            let c = match sp.cels.get(&(f as u16, l as u16)) {
                Some(c) => c,
                None => continue,
            };
            if let CelContentM::Tilemap { w: sw, h: sh, tiles, masks } = &c.content {
                let w = (sp.width as u32 + ts.tw as u32 - 1) / ts.tw as u32;
                let h = (sp.height as u32 + ts.th as u32 - 1) / ts.th as u32;
                // C08 quantifies over tile-aligned offsets, where every rounding agrees
                let ox = div_trunc(c.x as i32, ts.tw as i32);
                let oy = div_trunc(c.y as i32, ts.th as i32);
                let coords = tile_probe_coords(w, h);
                let ids: Vec<V> = coords
                    .iter()
                    .map(|(x, y)| {
                        let sx = *x as i64 - ox as i64;
                        let sy = *y as i64 - oy as i64;
                        if sx < 0 || sy < 0 || sx >= *sw as i64 || sy >= *sh as i64 {
                            n(0)
                        } else {
                            n(tiles[(sy * *sw as i64 + sx) as usize] & masks[0])
                        }
                    })
                    .collect();
                let mut items = vec![
                    ("layer", nu(l)),
                    ("frame", nu(f)),
                    ("width", n(w)),
                    ("height", n(h)),
                    ("tile_size", V::L(vec![n(ts.tw), n(ts.th)])),
                    ("tile_offsets", V::L(vec![n(ox), n(oy)])),
                    ("pixel_offsets", V::L(vec![n(c.x), n(c.y)])),
                    ("tileset", n(ts.id)),
                    ("tiles", V::L(ids)),
                ];
                if images {
                    items.push(("image", V::Img(refrender::render_cel(sp, f as u16, l as u16))));
                }
                out.push(m(items));
            }
        }
    }
    m(vec![("maps", V::L(out)), ("oob_some", V::L(vec![b(false), b(false), b(false)]))])
}

pub fn expect(sp: &Sprite, opts: &ObsOpts) -> V {
    let mut items: Vec<(&str, V)> = Vec::new();
    if opts.structure {
        items.push(("structure", structure(sp, opts)));
    }
    if opts.cels {
        items.push(("cels", cels(sp, opts.cel_images)));
    }
    if opts.frame_images {
        items.push(("frame_images", frame_images(sp)));
    }
    if opts.tileset_images {
        items.push(("tileset_images", tileset_images(sp)));
    }
    if opts.tilemaps {
        items.push(("tilemaps", tilemaps(sp, opts.cel_images)));
    }
    m(items)
}
