//! FFI to the independent C++ transcription of Aseprite's blend functions.

#[cfg(not(no_oracle))]
extern "C" {
    fn ase_ref_blend(mode: u32, backdrop: u32, src: u32, opacity: u32) -> u32;
    fn ase_ref_mul_un8(a: u32, b: u32) -> u32;
    fn ase_ref_blend_many(mode: u32, backdrop: *const u32, src: *const u32, opacity: u32, out: *mut u32, n: u64);
}

#[inline]
pub fn pack(p: [u8; 4]) -> u32 {
    u32::from_le_bytes(p)
}
#[inline]
pub fn unpack(c: u32) -> [u8; 4] {
    c.to_le_bytes()
}

#[cfg(not(no_oracle))]
pub fn blend(mode: u32, backdrop: [u8; 4], src: [u8; 4], opacity: u8) -> [u8; 4] {
    assert!(mode <= 18);
    unpack(unsafe { ase_ref_blend(mode, pack(backdrop), pack(src), opacity as u32) })
}

#[cfg(not(no_oracle))]
pub fn blend_packed(mode: u32, backdrop: u32, src: u32, opacity: u8) -> u32 {
    unsafe { ase_ref_blend(mode, backdrop, src, opacity as u32) }
}

#[cfg(not(no_oracle))]
pub fn blend_many(mode: u32, backdrop: &[u32], src: &[u32], opacity: u8, out: &mut [u32]) {
    assert!(mode <= 18);
    assert!(backdrop.len() == src.len() && src.len() == out.len());
    unsafe { ase_ref_blend_many(mode, backdrop.as_ptr(), src.as_ptr(), opacity as u32, out.as_mut_ptr(), out.len() as u64) }
}

#[cfg(not(no_oracle))]
pub fn mul_un8(a: u8, b: u8) -> u8 {
    unsafe { ase_ref_mul_un8(a as u32, b as u32) as u8 }
}

// ---- Miri / no-oracle builds: the oracle is never consulted there. --------
#[cfg(no_oracle)]
pub fn blend(_mode: u32, _backdrop: [u8; 4], _src: [u8; 4], _opacity: u8) -> [u8; 4] {
    panic!("blend oracle not available in this build")
}
#[cfg(no_oracle)]
pub fn blend_packed(_mode: u32, _backdrop: u32, _src: u32, _opacity: u8) -> u32 {
    panic!("blend oracle not available in this build")
}
#[cfg(no_oracle)]
pub fn blend_many(_mode: u32, _backdrop: &[u32], _src: &[u32], _opacity: u8, _out: &mut [u32]) {
    panic!("blend oracle not available in this build")
}
#[cfg(no_oracle)]
pub fn mul_un8(a: u8, b: u8) -> u8 {
    // the property's "8-bit rounded product"
    let t = a as u32 * b as u32 + 0x80;
    (((t >> 8) + t) >> 8) as u8
}

pub const MODE_NAMES: [&str; 19] = [
    "normal", "multiply", "screen", "overlay", "darken", "lighten", "color_dodge", "color_burn", "hard_light", "soft_light", "difference", "exclusion", "hue", "saturation", "color", "luminosity", "addition", "subtract", "divide",
];
