//! Independent reference decoder: Aseprite bytes -> `Sprite` model, written
//! from the file-format specification (not from asefile's parser). Used to
//! (a) turn the GUI-produced corpus into models so the reference renderer and
//! the blend oracle can be validated against Aseprite-rendered PNGs, and
//! (b) re-decode generated files as a self-check of the harness encoder.
//! Only well-formed input is supported; anything unexpected returns Err.

use crate::model::*;
use std::collections::BTreeMap;
use std::io::Read;

struct Rd<'a> {
    b: &'a [u8],
    p: usize,
}

impl<'a> Rd<'a> {
    fn new(b: &'a [u8]) -> Rd<'a> {
        Rd { b, p: 0 }
    }
    fn take(&mut self, n: usize) -> Result<&'a [u8], String> {
        if self.p + n > self.b.len() {
            return Err(format!("short read at {} (+{})", self.p, n));
        }
        let s = &self.b[self.p..self.p + n];
        self.p += n;
        Ok(s)
    }
    fn u8(&mut self) -> Result<u8, String> {
        Ok(self.take(1)?[0])
    }
    fn u16(&mut self) -> Result<u16, String> {
        let s = self.take(2)?;
        Ok(u16::from_le_bytes([s[0], s[1]]))
    }
    fn i16(&mut self) -> Result<i16, String> {
        Ok(self.u16()? as i16)
    }
    fn u32(&mut self) -> Result<u32, String> {
        let s = self.take(4)?;
        Ok(u32::from_le_bytes([s[0], s[1], s[2], s[3]]))
    }
    fn i32(&mut self) -> Result<i32, String> {
        Ok(self.u32()? as i32)
    }
    fn string(&mut self) -> Result<String, String> {
        let n = self.u16()? as usize;
        let s = self.take(n)?;
        String::from_utf8(s.to_vec()).map_err(|e| e.to_string())
    }
    fn rest(&mut self) -> &'a [u8] {
        let s = &self.b[self.p..];
        self.p = self.b.len();
        s
    }
}

fn inflate(data: &[u8]) -> Result<Vec<u8>, String> {
    let mut d = flate2::read::ZlibDecoder::new(data);
    let mut out = Vec::new();
    d.read_to_end(&mut out).map_err(|e| e.to_string())?;
    Ok(out)
}

#[derive(Clone, Copy, Debug, PartialEq)]
pub enum UdCtx {
    None,
    Layer(usize),
    Cel(u16, u16),
    Slice(usize),
    Sprite,
    Tag(usize),
}

pub fn scale6(c: u8) -> u8 {
    // 0 -> 0, 63 -> 255, evenly in between
    (c << 2) | (c >> 4)
}

pub fn decode(bytes: &[u8]) -> Result<Sprite, String> {
    let mut r = Rd::new(bytes);
    let _size = r.u32()?;
    if r.u16()? != 0xA5E0 {
        return Err("bad magic".into());
    }
    let nframes = r.u16()? as usize;
    let width = r.u16()?;
    let height = r.u16()?;
    let depth = r.u16()?;
    let _flags = r.u32()?;
    let _speed = r.u16()?;
    r.take(8)?;
    let transparent_index = r.u8()?;
    r.take(3)?;
    let _ncolors = r.u16()?;
    let _pw = r.u8()?;
    let _ph = r.u8()?;
    r.take(8)?;
    r.take(84)?;
    let fmt = match depth {
        32 => Fmt::Rgba,
        16 => Fmt::Gray,
        8 => Fmt::Indexed,
        d => return Err(format!("depth {}", d)),
    };
    let mut sp = Sprite::blank(width, height, fmt, nframes);
    sp.transparent_index = transparent_index;
    let mut new_palette_seen = false;
    let mut ctx = UdCtx::None;
    for f in 0..nframes {
        let fstart = r.p;
        let fbytes = r.u32()? as usize;
        if r.u16()? != 0xF1FA {
            return Err("bad frame magic".into());
        }
        let old = r.u16()? as u32;
        sp.durations[f] = r.u16()?;
        r.take(2)?;
        let new = r.u32()?;
        let n = if new == 0 { old } else { new };
        for _ in 0..n {
            let cstart = r.p;
            let csize = r.u32()? as usize;
            let ctype = r.u16()?;
            if csize < 6 {
                return Err("chunk size < 6".into());
            }
            let body = r.take(csize - 6)?;
            let mut c = Rd::new(body);
            match ctype {
                0x2004 => {
                    let flags = c.u16()?;
                    let ty = c.u16()?;
                    let level = c.u16()?;
                    c.take(4)?;
                    let blend = c.u16()?;
                    let opacity = c.u8()?;
                    c.take(3)?;
                    let name = c.string()?;
                    let kind = match ty {
                        0 => LayerKind::Image,
                        1 => LayerKind::Group,
                        2 => LayerKind::Tilemap(c.u32()?),
                        t => return Err(format!("layer type {}", t)),
                    };
                    sp.layers.push(LayerM { flags, kind, level, blend, opacity, name, ud: None });
                    ctx = UdCtx::Layer(sp.layers.len() - 1);
                }
                0x2005 => {
                    let layer = c.u16()?;
                    let x = c.i16()?;
                    let y = c.i16()?;
                    let opacity = c.u8()?;
                    let ty = c.u16()?;
                    c.take(7)?;
                    let content = match ty {
                        0 => {
                            let w = c.u16()?;
                            let h = c.u16()?;
                            let px = c.take(w as usize * h as usize * fmt.bpp())?.to_vec();
                            CelContentM::Image { w, h, pixels: px }
                        }
                        1 => CelContentM::Link(c.u16()?),
                        2 => {
                            let w = c.u16()?;
                            let h = c.u16()?;
                            let px = inflate(c.rest())?;
                            if px.len() != w as usize * h as usize * fmt.bpp() {
                                return Err("cel payload size".into());
                            }
                            CelContentM::Image { w, h, pixels: px }
                        }
                        3 => {
                            let w = c.u16()?;
                            let h = c.u16()?;
                            let bits = c.u16()?;
                            if bits != 32 {
                                return Err("bits per tile".into());
                            }
                            let masks = [c.u32()?, c.u32()?, c.u32()?, c.u32()?];
                            c.take(10)?;
                            let raw = inflate(c.rest())?;
                            if raw.len() != w as usize * h as usize * 4 {
                                return Err("tilemap payload size".into());
                            }
                            let tiles = raw.chunks_exact(4).map(|b| u32::from_le_bytes([b[0], b[1], b[2], b[3]])).collect();
                            CelContentM::Tilemap { w, h, tiles, masks }
                        }
                        t => return Err(format!("cel type {}", t)),
                    };
                    sp.cels.insert((f as u16, layer), CelM { x, y, opacity, content, ud: None });
                    ctx = UdCtx::Cel(f as u16, layer);
                }
                0x2018 => {
                    let k = c.u16()?;
                    c.take(8)?;
                    let mut tags = Vec::new();
                    for _ in 0..k {
                        let from = c.u16()?;
                        let to = c.u16()?;
                        let dir = c.u8()?;
                        let repeat = c.u16()?;
                        c.take(6)?;
                        let color = c.u32()?;
                        let name = c.string()?;
                        tags.push(TagM { from, to, dir, repeat, color, name, ud: None });
                    }
                    if f == 0 {
                        sp.tags = tags;
                        ctx = UdCtx::Tag(0);
                    }
                }
                0x2019 => {
                    let _total = c.u32()?;
                    let first = c.u32()?;
                    let last = c.u32()?;
                    c.take(8)?;
                    let mut pal = BTreeMap::new();
                    let mut id = first;
                    loop {
                        let flags = c.u16()?;
                        let rgba = [c.u8()?, c.u8()?, c.u8()?, c.u8()?];
                        let name = if flags & 1 != 0 { Some(c.string()?) } else { None };
                        pal.insert(id, PalEntryM { rgba, name });
                        if id == last {
                            break;
                        }
                        id += 1;
                    }
                    sp.palette = Some(pal);
                    new_palette_seen = true;
                }
                0x0004 | 0x0011 => {
                    let packets = c.u16()?;
                    let mut pal = BTreeMap::new();
                    let mut skip: u32 = 0;
                    for _ in 0..packets {
                        skip += c.u8()? as u32;
                        let mut count = c.u8()? as u32;
                        if count == 0 {
                            count = 256;
                        }
                        for id in skip..skip + count {
                            let mut rgb = [c.u8()?, c.u8()?, c.u8()?];
                            if ctype == 0x0011 {
                                rgb = [scale6(rgb[0]), scale6(rgb[1]), scale6(rgb[2])];
                            }
                            pal.insert(id, PalEntryM { rgba: [rgb[0], rgb[1], rgb[2], 255], name: None });
                        }
                    }
                    if !new_palette_seen && sp.palette.is_none() {
                        sp.palette = Some(pal);
                    }
                    ctx = UdCtx::Sprite;
                }
                0x2020 => {
                    let flags = c.u32()?;
                    let text = if flags & 1 != 0 { Some(c.string()?) } else { None };
                    let color = if flags & 2 != 0 { Some([c.u8()?, c.u8()?, c.u8()?, c.u8()?]) } else { None };
                    let ud = UserDataM { text, color };
                    match ctx {
                        UdCtx::None => return Err("dangling user data".into()),
                        UdCtx::Layer(i) => sp.layers[i].ud = Some(ud),
                        UdCtx::Cel(cf, cl) => sp.cels.get_mut(&(cf, cl)).ok_or("cel ctx")?.ud = Some(ud),
                        UdCtx::Slice(i) => sp.slices[i].ud = Some(ud),
                        UdCtx::Sprite => sp.sprite_ud = Some(ud),
                        UdCtx::Tag(i) => {
                            sp.tags.get_mut(i).ok_or("tag ctx")?.ud = Some(ud);
                            ctx = UdCtx::Tag(i + 1);
                        }
                    }
                }
                0x2022 => {
                    let nk = c.u32()?;
                    let flags = c.u32()?;
                    c.take(4)?;
                    let name = c.string()?;
                    let mut keys = Vec::new();
                    for _ in 0..nk {
                        let frame = c.u32()?;
                        let x = c.i32()?;
                        let y = c.i32()?;
                        let w = c.u32()?;
                        let h = c.u32()?;
                        let center = if flags & 1 != 0 { Some((c.i32()?, c.i32()?, c.u32()?, c.u32()?)) } else { None };
                        let pivot = if flags & 2 != 0 { Some((c.i32()?, c.i32()?)) } else { None };
                        keys.push(SliceKeyM { frame, x, y, w, h, center, pivot });
                    }
                    sp.slices.push(SliceM { name, flags: flags & 3, keys, ud: None });
                    ctx = UdCtx::Slice(sp.slices.len() - 1);
                }
                0x2008 => {
                    let k = c.u32()?;
                    c.take(8)?;
                    for _ in 0..k {
                        let id = c.u32()?;
                        c.take(8)?;
                        let name = c.string()?;
                        sp.ext_files.push(ExtFileM { id, name });
                    }
                }
                0x2023 => {
                    let id = c.u32()?;
                    let flags = c.u32()?;
                    let count = c.u32()?;
                    let tw = c.u16()?;
                    let th = c.u16()?;
                    let base_index = c.i16()?;
                    c.take(14)?;
                    let name = c.string()?;
                    let ext = if flags & TS_LINK != 0 { Some((c.u32()?, c.u32()?)) } else { None };
                    let pixels = if flags & TS_EMBED != 0 {
                        let clen = c.u32()? as usize;
                        let data = c.take(clen.min(c.b.len() - c.p))?;
                        inflate(data)?
                    } else {
                        return Err("tileset without embedded pixels".into());
                    };
                    if pixels.len() != count as usize * tw as usize * th as usize * fmt.bpp() {
                        return Err("tileset payload size".into());
                    }
                    sp.tilesets.push(TilesetM { id, flags: flags & 7, count, tw, th, base_index, name, ext, pixels });
                }
                _ => {}
            }
            if r.p != cstart + csize {
                return Err("chunk framing".into());
            }
        }
        if fstart + fbytes < r.p {
            return Err("frame overrun".into());
        }
        r.p = fstart + fbytes;
        if r.p > bytes.len() {
            return Err("frame beyond file".into());
        }
    }
    Ok(sp)
}
