//! The 41+ GUI-produced files under /repo/tests/data, decoded by the
//! harness's independent decoder, and the Aseprite-rendered reference PNGs.
//! These PNGs are the ground truth that validates the blend oracle and the
//! reference renderer before any verdict is given.

use crate::common::Ctx;
use crate::decode::decode;
use crate::model::Sprite;
use crate::refrender;
use crate::val::Img;

pub fn list(ctx: &Ctx) -> Vec<(String, Vec<u8>)> {
    let mut out = Vec::new();
    if let Ok(rd) = std::fs::read_dir(ctx.corpus_dir()) {
        let mut names: Vec<_> = rd.filter_map(|e| e.ok()).map(|e| e.path()).filter(|p| p.extension().map(|x| x == "aseprite").unwrap_or(false)).collect();
        names.sort();
        for p in names {
            if let Ok(b) = std::fs::read(&p) {
                out.push((p.file_stem().unwrap().to_string_lossy().to_string(), b));
            }
        }
    }
    out
}

pub fn read_png(ctx: &Ctx, stem: &str) -> Option<Img> {
    let p = ctx.corpus_dir().join(format!("{}.png", stem));
    let img = image::open(&p).ok()?.to_rgba8();
    Some(Img::from_rgba(&img, true))
}

/// (aseprite stem, frame, reference png stem) for whole-frame images rendered by Aseprite
pub const FRAME_REFS: [(&str, u16, &str); 40] = [
    ("basic-16x16", 0, "basic-16x16"),
    ("layers_and_tags", 0, "layers_and_tags_01"),
    ("layers_and_tags", 1, "layers_and_tags_02"),
    ("layers_and_tags", 2, "layers_and_tags_03"),
    ("layers_and_tags", 3, "layers_and_tags_04"),
    ("big", 0, "big"),
    ("transparency", 0, "transparency_01"),
    ("transparency", 1, "transparency_02"),
    ("background", 0, "background"),
    ("linked_cels", 0, "linked_cels_01"),
    ("linked_cels", 1, "linked_cels_02"),
    ("linked_cels", 2, "linked_cels_03"),
    ("indexed", 0, "indexed_01"),
    ("grayscale", 0, "grayscale"),
    ("256_color_old_palette_chunk", 0, "256_color_old_palette_chunk"),
    ("tilemap", 0, "tilemap"),
    ("tilemap_indexed", 0, "tilemap_indexed"),
    ("tilemap_grayscale", 0, "tilemap_grayscale"),
    ("tilemap_multi", 0, "tilemap_multi"),
    ("blend_normal", 0, "blend_normal"),
    ("blend_multiply", 0, "blend_multiply"),
    ("blend_screen", 0, "blend_screen"),
    ("blend_overlay", 0, "blend_overlay"),
    ("blend_darken", 0, "blend_darken"),
    ("blend_lighten", 0, "blend_lighten"),
    ("blend_colordodge", 0, "blend_colordodge"),
    ("blend_colorburn", 0, "blend_colorburn"),
    ("blend_hardlight", 0, "blend_hardlight"),
    ("blend_softlight", 0, "blend_softlight"),
    ("blend_difference", 0, "blend_difference"),
    ("blend_exclusion", 0, "blend_exclusion"),
    ("blend_hue", 0, "blend_hue"),
    ("blend_saturation", 0, "blend_saturation"),
    ("blend_color", 0, "blend_color"),
    ("blend_luminosity", 0, "blend_luminosity"),
    ("blend_addition", 0, "blend_addition"),
    ("blend_subtract", 0, "blend_subtract"),
    ("blend_divide", 0, "blend_divide"),
    ("blend_saturation_bug", 0, "blend_saturation_bug"),
    ("cel_overflow", 0, "-"),
];

pub fn load_model(ctx: &Ctx, stem: &str) -> Result<Sprite, String> {
    let p = ctx.corpus_dir().join(format!("{}.aseprite", stem));
    let b = std::fs::read(&p).map_err(|e| format!("{}: {}", p.display(), e))?;
    decode(&b).map_err(|e| format!("{}: {}", stem, e))
}

fn count_mismatch(a: &Img, b: &Img) -> u64 {
    if a.w != b.w || a.h != b.h {
        return (a.w as u64 * a.h as u64).max(1);
    }
    a.px.chunks_exact(4).zip(b.px.chunks_exact(4)).filter(|(p, q)| p != q && !(p[3] == 0 && q[3] == 0)).count() as u64
}

/// Reference renderer + blend oracle applied to the independently decoded
/// corpus vs. the Aseprite-rendered PNGs. Returns (files, pixels, mismatches)
/// restricted to the blend_* files (the ones that exercise non-Normal modes).
pub fn oracle_vs_reference_pngs(ctx: &Ctx) -> Result<(u64, u64, u64), String> {
    let mut files = 0;
    let mut pixels = 0;
    let mut mismatches = 0;
    for (stem, frame, png) in FRAME_REFS.iter() {
        if !stem.starts_with("blend_") {
            continue;
        }
        let sp = load_model(ctx, stem)?;
        let reference = match read_png(ctx, png) {
            Some(r) => r,
            None => continue,
        };
        let mine = refrender::render_frame(&sp, *frame);
        files += 1;
        pixels += reference.w as u64 * reference.h as u64;
        mismatches += count_mismatch(&mine, &reference);
    }
    Ok((files, pixels, mismatches))
}

/// Same for every corpus file that has an Aseprite-rendered frame image.
pub fn refrender_vs_reference_pngs(ctx: &Ctx) -> Result<(u64, u64, u64, Vec<String>), String> {
    let mut files = 0;
    let mut pixels = 0;
    let mut mismatches = 0;
    let mut bad = Vec::new();
    for (stem, frame, png) in FRAME_REFS.iter() {
        if *png == "-" {
            continue;
        }
        let sp = load_model(ctx, stem)?;
        let reference = match read_png(ctx, png) {
            Some(r) => r,
            None => continue,
        };
        let mine = refrender::render_frame(&sp, *frame);
        files += 1;
        pixels += reference.w as u64 * reference.h as u64;
        let mm = count_mismatch(&mine, &reference);
        if mm > 0 {
            bad.push(format!("{}#{}: {} px", stem, frame, mm));
        }
        mismatches += mm;
    }
    Ok((files, pixels, mismatches, bad))
}
