//! Compiles a `Sprite` model into a `FileSpec` (one spec-conformant chunk
//! program), making every *neutral* encoding choice from a `Variation`.
//! Two different variations of one sprite must be observationally equal (C07).

use crate::model::*;
use crate::rng::Rng;

#[derive(Clone, Debug)]
pub struct Variation {
    /// raw / zlib level / stored blocks per cel and tileset
    pub storage: bool,
    /// which chunk-count field carries the count
    pub count_style: bool,
    /// cel-extra / mask / path / colour-profile chunks in any gap
    pub ignorable: bool,
    /// junk in unused header, layer, cel, tag, slice reserved fields
    pub junk: bool,
    /// pixel ratio with a zero component
    pub zero_ratio: bool,
    /// extra bytes at chunk ends
    pub padding: bool,
    /// bytes after the last frame
    pub trailer: bool,
    /// redundant legacy palette next to a new palette
    pub legacy_pal: bool,
    /// permute cel chunks within each frame
    pub cel_order: bool,
    /// the palette written as several new-format chunks (parts of the range; a stale version of a sub-range first)
    pub split: bool,
    /// storage used when `storage` is off
    pub default_storage: Storage,
}

impl Variation {
    pub fn none() -> Variation {
        Variation { storage: false, count_style: false, ignorable: false, junk: false, zero_ratio: false, padding: false, trailer: false, legacy_pal: false, cel_order: false, split: false, default_storage: Storage::Zlib(6) }
    }
    pub fn all() -> Variation {
        Variation { storage: true, count_style: true, ignorable: true, junk: true, zero_ratio: true, padding: true, trailer: true, legacy_pal: true, cel_order: true, split: true, default_storage: Storage::Zlib(6) }
    }
    pub const NAMES: [&'static str; 10] = ["storage", "count_style", "ignorable", "junk", "zero_ratio", "padding", "trailer", "legacy_pal", "cel_order", "split"];
    pub fn only(i: usize) -> Variation {
        let mut v = Variation::none();
        match i {
            0 => v.storage = true,
            1 => v.count_style = true,
            2 => v.ignorable = true,
            3 => v.junk = true,
            4 => v.zero_ratio = true,
            5 => v.padding = true,
            6 => v.trailer = true,
            7 => v.legacy_pal = true,
            9 => v.split = true,
            _ => v.cel_order = true,
        }
        v
    }
    pub fn describe(&self) -> String {
        let flags = [self.storage, self.count_style, self.ignorable, self.junk, self.zero_ratio, self.padding, self.trailer, self.legacy_pal, self.cel_order, self.split];
        let on: Vec<&str> = Variation::NAMES.iter().zip(flags.iter()).filter(|(_, f)| **f).map(|(n, _)| *n).collect();
        if on.is_empty() {
            "baseline".into()
        } else {
            on.join("+")
        }
    }
}

pub fn default_header(sp: &Sprite) -> HeaderSpec {
    HeaderSpec {
        file_size: None,
        magic: 0xA5E0,
        frames: sp.durations.len() as u16,
        width: sp.width,
        height: sp.height,
        depth: sp.fmt.depth(),
        flags: 1,
        speed: 100,
        ph1: 0,
        ph2: 0,
        transparent_index: sp.transparent_index,
        ignore: [0; 3],
        num_colors: sp.palette.as_ref().map(|p| p.len().min(65535) as u16).unwrap_or(0),
        pixel_w: 1,
        pixel_h: 1,
        grid: [0, 0, 16, 16],
        reserved: vec![0; 84],
    }
}

pub fn storage_choice(rng: &mut Rng, v: &Variation) -> Storage {
    if !v.storage {
        return v.default_storage.clone();
    }
    match rng.below(12) {
        0 | 1 => Storage::Raw,
        2 => {
            let b = *rng.pick(&[1usize, 2, 3, 7, 64, 65535]);
            if rng.chance(1, 2) {
                Storage::Stored(b)
            } else {
                Storage::StoredWin(b, rng.below(8) as u8)
            }
        }
        3 => Storage::Zlib(0),
        n => Storage::Zlib((n - 3) as u32),
    }
}

/// New-format palette chunk(s) for a model palette: one chunk covering
/// first..=last. Only called when the palette's ids are contiguous.
pub fn palette_chunk(pal: &std::collections::BTreeMap<u32, PalEntryM>, rng: &mut Rng, junk: bool) -> ChunkSpec {
    let first = *pal.keys().next().unwrap();
    let entries = pal
        .values()
        .map(|e| PalChunkEntry { flags_extra: if junk { (rng.u32() as u16) & 0xfffe } else { 0 }, rgba: e.rgba, name: e.name.clone() })
        .collect();
    let mut reserved = [0u8; 8];
    if junk {
        reserved.copy_from_slice(&rng.bytes(8));
    }
    ChunkSpec::Palette { total: if junk { rng.u32() } else { pal.len() as u32 }, first, entries, reserved }
}

pub fn ignorable_chunk(rng: &mut Rng) -> ChunkSpec {
    if rng.chance(1, 6) {
        // the same kinds with realistic larger payloads (a 64x32 mask bitmap, a long path)
        let ty = *rng.pick(&[0x2016u16, 0x2017, 0x2006]);
        let n = *rng.pick(&[100usize, 129, 200, 276, 400]);
        return ChunkSpec::Ignorable { ty, data: rng.bytes(n) };
    }
    match rng.below(5) {
        0 => ChunkSpec::CelExtra,
        1 => ChunkSpec::Mask,
        2 => ChunkSpec::Path,
        3 => ChunkSpec::ColorProfile { ty: 1, flags: 0, gamma: 0, icc: None },
        _ => ChunkSpec::ColorProfile { ty: 0, flags: 0, gamma: rng.u32(), icc: None },
    }
}

/// Pad frame `frame` of `spec` with empty ignorable chunks (mask / path / cel-extra kinds without payload) up to
/// `total` chunks. `tail_keep` chunks at the end of the frame stay behind the padding (so that they sit beyond
/// chunk index `total - tail_keep`); the rest of the padding position is drawn at random.
pub fn pad_frame(spec: &mut FileSpec, frame: usize, total: usize, tail_keep: usize, rng: &mut Rng) {
    let cur = spec.frames[frame].chunks.len();
    if cur >= total {
        return;
    }
    let need = total - cur;
    let hi = cur - tail_keep.min(cur);
    let pos = if tail_keep > 0 { hi } else { rng.usize_below(cur + 1) };
    let fill: Vec<ChunkItem> = (0..need).map(|k| ChunkSpec::Ignorable { ty: [0x2016u16, 0x2017, 0x2006][k % 3], data: vec![] }.into()).collect();
    spec.frames[frame].chunks.splice(pos..pos, fill);
    // (0xFFFF, n) is the only spelling of a count above 65535
    if total > 0xFFFF {
        spec.frames[frame].count_style = CountStyle::NewOnly;
    }
}

pub struct Compiled {
    pub spec: FileSpec,
}

/// Optional override of how the palette is written.
#[derive(Clone, Debug)]
pub enum PaletteProgram {
    /// derive: one new-format chunk (model palette must be contiguous)
    Auto,
    /// exactly these chunks, in this order, at the palette position
    Chunks(Vec<ChunkSpec>),
}

pub fn compile(sp: &Sprite, rng: &mut Rng, v: &Variation) -> FileSpec {
    compile_with(sp, rng, v, &PaletteProgram::Auto)
}

pub fn compile_with(sp: &Sprite, rng: &mut Rng, v: &Variation, palprog: &PaletteProgram) -> FileSpec {
    let mut header = default_header(sp);
    // header flag bit 0 = "layer opacity has a valid value": when it is clear the opacity byte of every layer chunk
    // is an unused field and every layer is fully opaque. Only sprites whose layers all have opacity 255 can be
    // written that way.
    let opacity_unused = v.junk && !sp.layers.is_empty() && sp.layers.iter().all(|l| l.opacity == 255) && rng.chance(1, 2);
    if v.junk {
        header.flags = rng.u32() | 1; // bit0 "layer opacity valid" stays set (cleared below when every layer is opaque)
        if opacity_unused {
            header.flags &= !1;
        }
        header.speed = rng.u32() as u16;
        header.ph1 = rng.u32();
        header.ph2 = rng.u32();
        header.ignore = [rng.u8(), rng.u8(), rng.u8()];
        header.num_colors = rng.u32() as u16;
        header.grid = [rng.u32() as u16, rng.u32() as u16, rng.u32() as u16, rng.u32() as u16];
        header.reserved = rng.bytes(84);
        if rng.chance(1, 2) {
            header.file_size = Some(rng.u32());
        }
        if sp.fmt != Fmt::Indexed {
            header.transparent_index = rng.u8();
        }
    }
    if v.zero_ratio {
        let (a, b) = *rng.pick(&[(0u8, 1u8), (1, 0), (0, 0), (0, 7), (9, 0), (0, 255), (255, 0)]);
        header.pixel_w = a;
        header.pixel_h = b;
    }

    let nframes = sp.durations.len();
    let mut frames: Vec<FrameSpec> = sp.durations.iter().map(|d| FrameSpec::new(*d)).collect();

    // ---- frame 0 preamble -------------------------------------------------
    let mut f0: Vec<ChunkItem> = Vec::new();
    if nframes > 0 {
        if v.ignorable && rng.chance(1, 2) {
            f0.push(ChunkSpec::ColorProfile { ty: *rng.pick(&[0u16, 1]), flags: 0, gamma: 0, icc: None }.into());
        }
        if !sp.ext_files.is_empty() {
            let mut reserved = [0u8; 8];
            if v.junk {
                reserved.copy_from_slice(&rng.bytes(8));
            }
            f0.push(ChunkSpec::ExtFiles { files: sp.ext_files.clone(), reserved }.into());
        }
        // palette
        let mut legacy_present = false;
        match palprog {
            PaletteProgram::Auto => {
                if let Some(pal) = &sp.palette {
                    if !pal.is_empty() {
                        let legacy = legacy_redundant(pal, rng);
                        let before = v.legacy_pal && rng.chance(1, 3) && sp.sprite_ud.is_none();
                        if before {
                            f0.push(legacy.clone().into());
                        }
                        if v.split && pal.len() >= 2 {
                            // a stale version of a sub-range first (every later chunk wins), then the range in 2-3 parts
                            let keys: Vec<u32> = pal.keys().cloned().collect();
                            if rng.chance(1, 2) {
                                let a = rng.usize_below(keys.len());
                                let b = a + rng.usize_below(keys.len() - a);
                                let stale: std::collections::BTreeMap<u32, PalEntryM> = keys[a..=b].iter().map(|k| (*k, PalEntryM { rgba: [rng.u8(), rng.u8(), rng.u8(), rng.u8()], name: if rng.chance(1, 3) { Some("stale".into()) } else { None } })).collect();
                                f0.push(palette_chunk(&stale, rng, v.junk).into());
                            }
                            let parts = rng.range(2, 3.min(keys.len() as i64)) as usize;
                            let mut cuts: Vec<usize> = (0..parts - 1).map(|_| 1 + rng.usize_below(keys.len() - 1)).collect();
                            cuts.push(0);
                            cuts.push(keys.len());
                            cuts.sort_unstable();
                            cuts.dedup();
                            for w in cuts.windows(2) {
                                let part: std::collections::BTreeMap<u32, PalEntryM> = keys[w[0]..w[1]].iter().map(|k| (*k, pal[k].clone())).collect();
                                f0.push(palette_chunk(&part, rng, v.junk).into());
                            }
                        } else {
                            f0.push(palette_chunk(pal, rng, v.junk).into());
                        }
                        if sp.sprite_ud.is_some() || (v.legacy_pal && !before) {
                            f0.push(legacy.into());
                            legacy_present = true;
                        }
                    }
                }
            }
            PaletteProgram::Chunks(cs) => {
                for c in cs {
                    if matches!(c, ChunkSpec::OldPalette { .. }) {
                        legacy_present = true;
                    } else {
                        legacy_present = false;
                    }
                    f0.push(c.clone().into());
                }
            }
        }
        if let Some(ud) = &sp.sprite_ud {
            assert!(legacy_present, "sprite user data needs a trailing legacy palette chunk in the program");
            f0.push(ChunkSpec::UserData(ud.clone()).into());
        }
        // a context-neutral chunk after the palette block so that nothing which
        // follows a redundant legacy chunk can be a user-data chunk
        for t in &sp.tilesets {
            let mut reserved = [0u8; 14];
            if v.junk {
                reserved.copy_from_slice(&rng.bytes(14));
            }
            let level = if v.storage { rng.below(10) as u32 } else { 6 };
            f0.push(ChunkSpec::Tileset { t: t.clone(), level, reserved }.into());
        }
        // sixth round: a palette edit that arrives AFTER the tileset chunks (what Aseprite writes when the palette of a
        // sprite with tilesets is edited later) - a sub-range re-listed with its final values merges into the palette
        let has_new_palette_chunk = match palprog {
            PaletteProgram::Auto => true,
            PaletteProgram::Chunks(cs) => cs.iter().any(|c| matches!(c, ChunkSpec::Palette { .. })),
        };
        if v.split && has_new_palette_chunk && !sp.tilesets.is_empty() {
            if let Some(pal) = &sp.palette {
                if !pal.is_empty() && rng.chance(1, 2) {
                    let keys: Vec<u32> = pal.keys().cloned().collect();
                    let a = rng.usize_below(keys.len());
                    let b = a + rng.usize_below((keys.len() - a).min(4));
                    // a chunk lists consecutive indices
                    if (keys[b] - keys[a]) as usize == b - a {
                        let part: std::collections::BTreeMap<u32, PalEntryM> = keys[a..=b].iter().map(|k| (*k, pal[k].clone())).collect();
                        f0.push(palette_chunk(&part, rng, v.junk).into());
                    }
                }
            }
        }
        for l in &sp.layers {
            let junk = if v.junk { LayerJunk { default_w: rng.u32() as u16, default_h: rng.u32() as u16, r1: rng.u8(), r2: rng.u32() as u16 } } else { LayerJunk { default_w: 0, default_h: 0, r1: 0, r2: 0 } };
            let mut item: ChunkItem = ChunkSpec::Layer { l: l.clone(), junk }.into();
            if opacity_unused {
                let rng_byte = rng.u8();
                item.opacity_override = Some(*rng.pick(&[0u8, 1, 127, 128, 254, rng_byte]));
            }
            f0.push(item);
            if let Some(ud) = &l.ud {
                f0.push(ChunkSpec::UserData(ud.clone()).into());
            }
        }
        if !sp.tags.is_empty() {
            let mut reserved = [0u8; 8];
            let mut tag_reserved = [0u8; 6];
            if v.junk {
                reserved.copy_from_slice(&rng.bytes(8));
                tag_reserved.copy_from_slice(&rng.bytes(6));
            }
            // one tags chunk, or the grouping the model asks for
            let groups: Vec<usize> = if sp.tag_chunks.is_empty() || sp.tag_chunks.iter().sum::<usize>() != sp.tags.len() { vec![sp.tags.len()] } else { sp.tag_chunks.clone() };
            let mut start = 0;
            for n in groups {
                let part = &sp.tags[start..start + n];
                start += n;
                f0.push(ChunkSpec::Tags { tags: part.to_vec(), reserved, tag_reserved }.into());
                // user data for tags: records follow in tag order; a tag without a
                // record can only be skipped with an empty record, so records are
                // emitted for the prefix of this chunk's tags up to the last tag that has one.
                let last = part.iter().rposition(|t| t.ud.is_some());
                if let Some(last) = last {
                    for t in &part[..=last] {
                        let ud = t.ud.clone().expect("tag user data must form a prefix of its chunk (generator invariant)");
                        f0.push(ChunkSpec::UserData(ud).into());
                    }
                }
            }
        }
    }

    // ---- cels per frame ---------------------------------------------------
    for f in 0..nframes {
        let mut cels: Vec<Vec<ChunkItem>> = Vec::new();
        for (&(cf, cl), c) in sp.cels.range((f as u16, 0)..=(f as u16, u16::MAX)) {
            debug_assert_eq!(cf as usize, f);
            let mut group: Vec<ChunkItem> = Vec::new();
            let mut reserved = [0u8; 7];
            if v.junk {
                reserved.copy_from_slice(&rng.bytes(7));
                if rng.chance(1, 2) {
                    // the first reserved word became a signed z-index in later format versions: small values
                    // make "layer + z" coincide between cels of one frame
                    reserved[..2].copy_from_slice(&(rng.range(-3, 3) as i16).to_le_bytes());
                }
            }
            let storage = match c.content {
                CelContentM::Image { .. } => storage_choice(rng, v),
                CelContentM::Tilemap { .. } => {
                    let s = storage_choice(rng, v);
                    if s == Storage::Raw {
                        Storage::Zlib(1)
                    } else {
                        s
                    }
                }
                CelContentM::Link(_) => Storage::Raw,
            };
            group.push(ChunkSpec::Cel { layer: cl, c: c.clone(), storage, reserved, cel_type_override: None }.into());
            if v.ignorable && rng.chance(1, 3) {
                group.push(ChunkSpec::CelExtra.into());
            }
            if let Some(ud) = &c.ud {
                group.push(ChunkSpec::UserData(ud.clone()).into());
            }
            cels.push(group);
        }
        if v.cel_order {
            rng.shuffle(&mut cels);
        }
        let target = &mut frames[f].chunks;
        if f == 0 {
            target.append(&mut f0);
        }
        for g in cels {
            target.extend(g);
        }
    }

    // ---- slices at the end of frame 0 ---------------------------------------
    if nframes > 0 {
        for s in &sp.slices {
            frames[0].chunks.push(ChunkSpec::Slice { s: s.clone(), reserved: if v.junk { rng.u32() } else { 0 } }.into());
            if let Some(ud) = &s.ud {
                frames[0].chunks.push(ChunkSpec::UserData(ud.clone()).into());
            }
        }
    }

    // a redundant legacy palette may also sit at the start of a later frame (the
    // new-format palette of frame 0 still takes precedence); every later frame
    // continues with a cel chunk or ends, never with a user-data chunk
    // (only beside a new-format palette: two legacy chunks without one would BOTH count)
    let has_new_format = match palprog {
        PaletteProgram::Auto => true,
        PaletteProgram::Chunks(cs) => cs.iter().any(|c| matches!(c, ChunkSpec::Palette { .. })),
    };
    if v.legacy_pal && has_new_format && nframes > 1 && rng.chance(1, 3) {
        if let Some(pal) = &sp.palette {
            if !pal.is_empty() {
                let f = 1 + rng.usize_below(nframes - 1);
                let next_is_ud = matches!(frames[f].chunks.first().map(|c| &c.spec), Some(ChunkSpec::UserData(_)));
                // the chunk after it must not be a user-data record (it would attach to the sprite)
                let following_frame_starts_with_ud = frames[f].chunks.is_empty() && frames.get(f + 1).map_or(false, |fr| matches!(fr.chunks.first().map(|c| &c.spec), Some(ChunkSpec::UserData(_))));
                if !next_is_ud && !following_frame_starts_with_ud && !frames[f].chunks.is_empty() {
                    let legacy = legacy_redundant(pal, rng);
                    frames[f].chunks.insert(0, legacy.into());
                }
            }
        }
    }

    // ---- neutral decorations --------------------------------------------------
    for fr in frames.iter_mut() {
        if v.ignorable {
            // insert ignorable chunks in random gaps (including between an entity and its user data)
            let n = rng.below(4) as usize;
            for _ in 0..n {
                let pos = rng.usize_below(fr.chunks.len() + 1);
                fr.chunks.insert(pos, ignorable_chunk(rng).into());
            }
        }
        if v.padding {
            for c in fr.chunks.iter_mut() {
                if rng.chance(1, 2) {
                    let n = *rng.pick(&[1usize, 2, 3, 4, 7, 16, 64]);
                    c.pad = rng.bytes(n);
                }
            }
        }
        if v.count_style {
            fr.count_style = match rng.below(3) {
                0 => CountStyle::Both,
                1 => CountStyle::OldOnly,
                _ => CountStyle::NewOnly,
            };
            if fr.chunks.is_empty() {
                // n = 0: (0xFFFF, 0) would mean 65535 chunks
                fr.count_style = CountStyle::Both;
            }
            if fr.chunks.len() > 0xFFFF {
                fr.count_style = CountStyle::NewOnly;
            }
        }
        if v.junk {
            fr.reserved = rng.u32() as u16;
            // undefined bits of user-data flag words
            for c in fr.chunks.iter_mut() {
                if matches!(c.spec, ChunkSpec::UserData(_)) && rng.chance(1, 2) {
                    let r = rng.u32();
                    c.flag_junk = *rng.pick(&[0x8u32, 0x10, 0x100, 0x8000_0000, 0xffff_fff8, r]) & !7;
                }
            }
        }
    }
    if v.legacy_pal && has_new_format && rng.chance(1, 3) {
        if let Some(pal) = &sp.palette {
            if !pal.is_empty() && !frames.is_empty() {
                // ... or be the very last chunk of the file (no user-data record can follow it there)
                let legacy = legacy_redundant(pal, rng);
                let last = frames.len() - 1;
                frames[last].chunks.push(legacy.into());
                if frames[last].chunks.len() > 0xFFFF {
                    frames[last].count_style = CountStyle::NewOnly;
                }
            }
        }
    }
    let trailer = if v.trailer { let n = *rng.pick(&[1usize, 2, 5, 16, 100]); rng.bytes(n) } else { vec![] };
    FileSpec { header, frames, trailer, fmt: sp.fmt }
}

/// A legacy 0x0004 palette that is redundant next to a new-format chunk.
/// Its content is deliberately *different* from the real palette so that a
/// loader which lets it win is caught.
fn legacy_redundant(pal: &std::collections::BTreeMap<u32, PalEntryM>, rng: &mut Rng) -> ChunkSpec {
    let n = pal.len().clamp(1, 256);
    let cols: Vec<[u8; 3]> = (0..n).map(|_| [rng.u8(), rng.u8(), rng.u8()]).collect();
    // components kept below 64 so that the same packet is valid for both legacy kinds
    ChunkSpec::OldPalette { kind: if rng.chance(1, 2) { 4 } else { 0x11 }, packets: vec![(0, cols.into_iter().map(|c| [c[0] & 63, c[1] & 63, c[2] & 63]).collect())] }
}
