//! `observe(&AsepriteFile)`: whole-API observation through PUBLIC API only, in
//! canonical form (documented arbitrary-order collections sorted by id).

use crate::val::*;
use asefile::*;

#[derive(Clone, Debug)]
pub struct ObsOpts {
    pub structure: bool,
    pub cels: bool,
    pub cel_images: bool,
    pub frame_images: bool,
    pub tileset_images: bool,
    pub tilemaps: bool,
    /// additional palette indices to probe besides 0..PAL_PROBE and the extremes
    pub palette_probe: Vec<u32>,
    /// additional ids to probe for external files / tilesets
    pub id_probe: Vec<u32>,
}

pub const PAL_PROBE: u32 = 320;

impl ObsOpts {
    pub fn structure_only() -> ObsOpts {
        ObsOpts { structure: true, cels: false, cel_images: false, frame_images: false, tileset_images: false, tilemaps: false, palette_probe: vec![], id_probe: vec![] }
    }
    pub fn full() -> ObsOpts {
        ObsOpts { structure: true, cels: true, cel_images: true, frame_images: true, tileset_images: true, tilemaps: true, palette_probe: vec![], id_probe: vec![] }
    }
    pub fn no_images() -> ObsOpts {
        ObsOpts { structure: true, cels: true, cel_images: false, frame_images: false, tileset_images: false, tilemaps: false, palette_probe: vec![], id_probe: vec![] }
    }
}

pub fn ud_v(ud: Option<&UserData>) -> V {
    opt(ud, |u| {
        m(vec![
            ("text", opt(u.text.as_ref(), |t| V::S(t.clone()))),
            ("color", opt(u.color.as_ref(), |c| V::B(c.0.to_vec()))),
        ])
    })
}

pub fn pixel_format_v(pf: PixelFormat) -> V {
    match pf {
        PixelFormat::Rgba => s("rgba"),
        PixelFormat::Grayscale => s("gray"),
        PixelFormat::Indexed { transparent_color_index } => V::S(format!("indexed:{}", transparent_color_index)),
    }
}

pub fn blend_mode_id(b: BlendMode) -> i64 {
    match b {
        BlendMode::Normal => 0,
        BlendMode::Multiply => 1,
        BlendMode::Screen => 2,
        BlendMode::Overlay => 3,
        BlendMode::Darken => 4,
        BlendMode::Lighten => 5,
        BlendMode::ColorDodge => 6,
        BlendMode::ColorBurn => 7,
        BlendMode::HardLight => 8,
        BlendMode::SoftLight => 9,
        BlendMode::Difference => 10,
        BlendMode::Exclusion => 11,
        BlendMode::Hue => 12,
        BlendMode::Saturation => 13,
        BlendMode::Color => 14,
        BlendMode::Luminosity => 15,
        BlendMode::Addition => 16,
        BlendMode::Subtract => 17,
        BlendMode::Divide => 18,
    }
}

pub fn layer_type_v(t: LayerType) -> V {
    match t {
        LayerType::Image => s("image"),
        LayerType::Group => s("group"),
        LayerType::Tilemap(id) => V::S(format!("tilemap:{}", id)),
    }
}

pub fn palette_probe_ids(opts: &ObsOpts) -> Vec<u32> {
    let mut ids: Vec<u32> = (0..PAL_PROBE).collect();
    ids.extend_from_slice(&[511, 512, 65535, 65536, 0x7fff_ffff, 0x8000_0000, 0xffff_fffe, 0xffff_ffff]);
    ids.extend_from_slice(&opts.palette_probe);
    ids.sort_unstable();
    ids.dedup();
    ids
}

pub fn id_probe_ids(opts: &ObsOpts) -> Vec<u32> {
    let mut ids: Vec<u32> = (0..24).collect();
    ids.extend_from_slice(&[255, 256, 65535, 65536, 0x7fff_ffff, 0x8000_0000, 0xffff_ffff]);
    ids.extend_from_slice(&opts.id_probe);
    ids.sort_unstable();
    ids.dedup();
    ids
}

fn dir_id(d: AnimationDirection) -> i64 {
    match d {
        AnimationDirection::Forward => 0,
        AnimationDirection::Reverse => 1,
        AnimationDirection::PingPong => 2,
    }
}

pub fn tag_v(t: &Tag) -> V {
    m(vec![
        ("name", s(t.name())),
        ("from", n(t.from_frame())),
        ("to", n(t.to_frame())),
        ("dir", V::N(dir_id(t.animation_direction()))),
        ("repeat", opt(t.repeat(), |r| n(r.get()))),
        ("ud", ud_v(t.user_data())),
    ])
}

pub fn slice_v(sl: &Slice) -> V {
    m(vec![
        ("name", s(&sl.name)),
        (
            "keys",
            V::L(sl
                .keys
                .iter()
                .map(|k| {
                    m(vec![
                        ("from_frame", n(k.from_frame)),
                        ("origin", V::L(vec![n(k.origin.0), n(k.origin.1)])),
                        ("size", V::L(vec![n(k.size.0), n(k.size.1)])),
                        ("slice9", opt(k.slice9.as_ref(), |c| V::L(vec![n(c.center_x), n(c.center_y), n(c.center_width), n(c.center_height)]))),
                        ("pivot", opt(k.pivot, |p| V::L(vec![n(p.0), n(p.1)]))),
                    ])
                })
                .collect()),
        ),
        ("ud", ud_v(sl.user_data.as_ref())),
    ])
}

pub fn tileset_v<P>(t: &Tileset<P>) -> V {
    let ts = t.tile_size();
    m(vec![
        ("id", n(t.id())),
        ("empty_zero", b(t.empty_tile_is_id_zero())),
        ("count", n(t.tile_count())),
        ("tile_size", V::L(vec![n(ts.width()), n(ts.height())])),
        ("base_index", n(t.base_index())),
        ("name", s(t.name())),
        ("ext", opt(t.external_file(), |e| V::L(vec![n(e.external_file_id().value()), n(e.tileset_id())]))),
    ])
}

pub fn cel_v(c: &Cel, image: bool) -> V {
    let tl = c.top_left();
    let mut items = vec![
        ("frame", n(c.frame())),
        ("layer", n(c.layer())),
        ("is_empty", b(c.is_empty())),
        ("top_left", V::L(vec![n(tl.0), n(tl.1)])),
        ("is_tilemap", b(c.is_tilemap())),
        ("ud", ud_v(c.user_data())),
    ];
    if image {
        items.push(("image", V::Img(Img::from_rgba(&c.image(), true))));
    }
    m(items)
}

pub fn structure(ase: &AsepriteFile, opts: &ObsOpts) -> V {
    let nl = ase.num_layers();
    let nf = ase.num_frames();
    let mut items: Vec<(&str, V)> = vec![
        ("width", nu(ase.width())),
        ("height", nu(ase.height())),
        ("size", V::L(vec![nu(ase.size().0), nu(ase.size().1)])),
        ("num_frames", n(nf)),
        ("num_layers", n(nl)),
        ("pixel_format", pixel_format_v(ase.pixel_format())),
        ("transparent_color_index", opt(ase.transparent_color_index(), |x| n(x))),
        ("pf_transparent_color_index", opt(ase.pixel_format().transparent_color_index(), |x| n(x))),
        ("bytes_per_pixel", nu(ase.pixel_format().bytes_per_pixel())),
        ("is_indexed", b(ase.is_indexed_color())),
    ];
    items.push(("frames", V::L((0..nf).map(|f| { let fr = ase.frame(f); m(vec![("id", n(fr.id())), ("duration", n(fr.duration()))]) }).collect())));
    let layer_v = |l: &Layer| {
        m(vec![
            ("id", n(l.id())),
            ("name", s(l.name())),
            ("flags", n(l.flags().bits())),
            ("blend", V::N(blend_mode_id(l.blend_mode()))),
            ("opacity", n(l.opacity())),
            ("type", layer_type_v(l.layer_type())),
            ("is_tilemap", b(l.is_tilemap())),
            ("parent", opt(l.parent(), |p| n(p.id()))),
            ("visible", b(l.is_visible())),
            ("ud", ud_v(l.user_data())),
        ])
    };
    items.push(("layers", V::L((0..nl).map(|i| layer_v(&ase.layer(i))).collect())));
    items.push(("layers_iter", V::L(ase.layers().map(|l| n(l.id())).collect())));
    items.push(("layer_by_name", V::L((0..nl).map(|i| { let nm = ase.layer(i).name().to_string(); opt(ase.layer_by_name(&nm), |l| n(l.id())) }).collect())));
    items.push(("layer_by_name_missing", opt(ase.layer_by_name("\u{1}no such layer\u{2}"), |l| n(l.id()))));
    let nt = ase.num_tags();
    items.push(("num_tags", n(nt)));
    items.push(("tags", V::L((0..nt).map(|i| tag_v(ase.tag(i))).collect())));
    items.push(("get_tag", V::L((0..nt).map(|i| opt(ase.get_tag(i), tag_v)).collect())));
    items.push(("get_tag_oob", V::L(vec![opt(ase.get_tag(nt), tag_v), opt(ase.get_tag(nt.wrapping_add(1)), tag_v), opt(ase.get_tag(u32::MAX), tag_v), opt(ase.get_tag(65536 + nt), tag_v)])));
    items.push((
        "tag_by_name",
        V::L((0..nt)
            .map(|i| {
                let nm = ase.tag(i).name().to_string();
                opt(ase.tag_by_name(&nm), |t| {
                    // identify which tag was returned by address
                    let idx = (0..nt).find(|j| std::ptr::eq(ase.tag(*j), t));
                    opt(idx, |j| n(j))
                })
            })
            .collect()),
    ));
    items.push(("tag_by_name_missing", opt(ase.tag_by_name("\u{1}no such tag\u{2}"), tag_v)));
    items.push(("slices", V::L(ase.slices().iter().map(slice_v).collect())));
    // palette
    items.push((
        "palette",
        opt(ase.palette(), |p| {
            let ids = palette_probe_ids(opts);
            let mut found = Vec::new();
            for id in ids {
                if let Some(e) = p.color(id) {
                    let raw = e.raw_rgba8();
                    found.push(m(vec![
                        ("probe", n(id)),
                        ("id", n(e.id())),
                        ("rgba", V::B(raw.to_vec())),
                        ("getters", V::B(vec![e.red(), e.green(), e.blue(), e.alpha()])),
                        ("name", opt(e.name(), s)),
                    ]));
                }
            }
            m(vec![("num_colors", n(p.num_colors())), ("entries", V::L(found))])
        }),
    ));
    // external files (documented as a map: sorted by id here)
    {
        let mut files: Vec<(u32, String)> = ase.external_files().map().iter().map(|(k, v)| (k.value(), format!("{}\u{0}{}", v.id().value(), v.name()))).collect();
        files.sort();
        items.push(("ext_files", V::L(files.into_iter().map(|(k, v)| m(vec![("key", n(k)), ("id_name", V::S(v))])).collect())));
        let probes = id_probe_ids(opts);
        items.push((
            "ext_by_id",
            V::L(probes
                .iter()
                .filter_map(|id| {
                    let a = ase.external_file_by_id(&ExternalFileId::new(*id));
                    let b2 = ase.external_files().get(&ExternalFileId::new(*id));
                    let same = match (a, b2) {
                        (None, None) => true,
                        (Some(x), Some(y)) => std::ptr::eq(x, y),
                        _ => false,
                    };
                    if a.is_none() && same {
                        None
                    } else {
                        Some(m(vec![("probe", n(*id)), ("routes_agree", b(same)), ("id", opt(a, |x| n(x.id().value()))), ("name", opt(a, |x| s(x.name())))]))
                    }
                })
                .collect()),
        ));
    }
    // tilesets
    {
        let ts = ase.tilesets();
        let mut all: Vec<(u32, V)> = ts.iter().map(|t| (t.id(), tileset_v(t))).collect();
        all.sort_by_key(|x| x.0);
        items.push(("tilesets_len", n(ts.len())));
        items.push(("tilesets_is_empty", b(ts.is_empty())));
        items.push(("tilesets", V::L(all.into_iter().map(|x| x.1).collect())));
        let probes = id_probe_ids(opts);
        items.push(("tilesets_get", V::L(probes.iter().filter_map(|id| ts.get(*id).map(|t| V::L(vec![n(*id), n(t.id())]))).collect())));
    }
    items.push(("sprite_ud", ud_v(ase.sprite_user_data())));
    m(items)
}

pub fn cels(ase: &AsepriteFile, images: bool) -> V {
    let nl = ase.num_layers();
    let nf = ase.num_frames();
    V::L((0..nf).map(|f| V::L((0..nl).map(|l| cel_v(&ase.cel(f, l), images)).collect())).collect())
}

pub fn frame_images(ase: &AsepriteFile) -> V {
    V::L((0..ase.num_frames()).map(|f| V::Img(Img::from_rgba(&ase.frame(f).image(), true))).collect())
}

/// tile indices whose images are observed: all of them for ordinary tilesets, a
/// sample for very large ones (tile_image is linear in the tileset size)
pub fn tile_sample(count: u32) -> Vec<u32> {
    if count <= 400 {
        (0..count).collect()
    } else {
        let mut v: Vec<u32> = (0..8).collect();
        v.extend([255, 256, 257, count / 2, 65_535, 65_536, 65_537].iter().filter(|i| **i < count));
        v.extend(count - 8..count);
        v.sort_unstable();
        v.dedup();
        v
    }
}

pub fn tileset_images(ase: &AsepriteFile) -> V {
    let mut all: Vec<(u32, V)> = ase
        .tilesets()
        .iter()
        .map(|t| {
            let tiles: Vec<V> = tile_sample(t.tile_count()).into_iter().map(|i| V::Img(Img::from_rgba(&t.tile_image(i), false))).collect();
            (t.id(), m(vec![("id", n(t.id())), ("image", V::Img(Img::from_rgba(&t.image(), false))), ("tiles", V::L(tiles))]))
        })
        .collect();
    all.sort_by_key(|x| x.0);
    V::L(all.into_iter().map(|x| x.1).collect())
}

/// Tile lookups used for tilemap observation: every in-range coordinate of the
/// logical map (capped) plus the extreme set.
pub fn tile_probe_coords(w: u32, h: u32) -> Vec<(u32, u32)> {
    let mut v = Vec::new();
    for y in 0..h.min(40) {
        for x in 0..w.min(40) {
            v.push((x, y));
        }
    }
    let xs = [0u32, 1, w.wrapping_sub(1), w, w + 1, 65535, 65536, 0x7fff_ffff, 0x8000_0000, 0xffff_ffff];
    let ys = [0u32, 1, h.wrapping_sub(1), h, h + 1, 65535, 65536, 0x7fff_ffff, 0x8000_0000, 0xffff_ffff];
    for x in xs {
        for y in ys {
            v.push((x, y));
        }
    }
    v
}

pub fn tilemaps(ase: &AsepriteFile, images: bool) -> V {
    let nl = ase.num_layers();
    let nf = ase.num_frames();
    let mut out = Vec::new();
    for l in 0..nl {
        for f in 0..nf {
            let tm = ase.tilemap(l, f);
            if let Some(tm) = tm {
                let (w, h) = (tm.width(), tm.height());
                let coords = tile_probe_coords(w, h);
                let ids: Vec<V> = coords.iter().map(|(x, y)| n(tm.tile(*x, *y).id())).collect();
                let mut items = vec![
                    ("layer", n(l)),
                    ("frame", n(f)),
                    ("width", n(w)),
                    ("height", n(h)),
                    ("tile_size", V::L(vec![n(tm.tile_size().0), n(tm.tile_size().1)])),
                    ("tile_offsets", V::L(vec![n(tm.tile_offsets().0), n(tm.tile_offsets().1)])),
                    ("pixel_offsets", V::L(vec![n(tm.pixel_offsets().0), n(tm.pixel_offsets().1)])),
                    ("tileset", n(tm.tileset().id())),
                    ("tiles", V::L(ids)),
                ];
                if images {
                    items.push(("image", V::Img(Img::from_rgba(&tm.image(), true))));
                }
                out.push(m(items));
            }
        }
    }
    // out-of-range arguments are documented to give None
    let oob = [ase.tilemap(nl, 0).is_some(), ase.tilemap(0, nf).is_some(), ase.tilemap(u32::MAX, u32::MAX).is_some()];
    m(vec![("maps", V::L(out)), ("oob_some", V::L(oob.iter().map(|x| b(*x)).collect()))])
}

pub fn observe(ase: &AsepriteFile, opts: &ObsOpts) -> V {
    let mut items: Vec<(&str, V)> = Vec::new();
    if opts.structure {
        items.push(("structure", structure(ase, opts)));
    }
    if opts.cels {
        items.push(("cels", cels(ase, opts.cel_images)));
    }
    if opts.frame_images {
        items.push(("frame_images", frame_images(ase)));
    }
    if opts.tileset_images {
        items.push(("tileset_images", tileset_images(ase)));
    }
    if opts.tilemaps {
        items.push(("tilemaps", tilemaps(ase, opts.cel_images)));
    }
    m(items)
}
