//! Reference renderer written from the *statements* of C02 / C06 / C08, over
//! the sprite model. Blending goes through the C++ oracle.

use crate::blendref;
use crate::model::*;
use crate::val::Img;

/// Convert stored pixel bytes of the sprite's format to RGBA.
/// `background`: the owning layer is flagged background (indexed rule).
pub fn to_rgba(sp: &Sprite, bytes: &[u8], background: bool) -> Vec<[u8; 4]> {
    match sp.fmt {
        Fmt::Rgba => bytes.chunks_exact(4).map(|c| [c[0], c[1], c[2], c[3]]).collect(),
        Fmt::Gray => bytes.chunks_exact(2).map(|c| [c[0], c[0], c[0], c[1]]).collect(),
        Fmt::Indexed => {
            let pal = sp.palette.as_ref().expect("indexed sprite without palette in model");
            bytes
                .iter()
                .map(|i| {
                    let e = pal.get(&(*i as u32)).expect("model uses an index absent from its palette");
                    let a = if *i == sp.transparent_index && !background { 0 } else { e.rgba[3] };
                    [e.rgba[0], e.rgba[1], e.rgba[2], a]
                })
                .collect()
        }
    }
}

/// The cel's own pixel rectangle as RGBA (w, h, pixels); tilemaps are expanded
/// through their tileset.
pub fn cel_rect(sp: &Sprite, layer: usize, cel: &CelM) -> Option<(u32, u32, Vec<[u8; 4]>)> {
    match &cel.content {
        CelContentM::Image { w, h, pixels } => Some((*w as u32, *h as u32, to_rgba(sp, pixels, sp.layers[layer].is_background()))),
        CelContentM::Tilemap { w, h, tiles, masks } => {
            let tsid = match sp.layers[layer].kind {
                LayerKind::Tilemap(id) => id,
                _ => panic!("model: tilemap cel on non-tilemap layer"),
            };
            let ts = sp.tileset(tsid).expect("model: tilemap layer without tileset");
            let tpx = to_rgba(sp, &ts.pixels, false);
            let (tw, th) = (ts.tw as u32, ts.th as u32);
            let (pw, ph) = (*w as u32 * tw, *h as u32 * th);
            let mut out = vec![[0u8; 4]; (pw * ph) as usize];
            for ty in 0..*h as u32 {
                for tx in 0..*w as u32 {
                    let id = tiles[(ty * *w as u32 + tx) as usize] & masks[0];
                    let base = (id * tw * th) as usize;
                    for y in 0..th {
                        for x in 0..tw {
                            out[((ty * th + y) * pw + tx * tw + x) as usize] = tpx[base + (y * tw + x) as usize];
                        }
                    }
                }
            }
            Some((pw, ph, out))
        }
        CelContentM::Link(_) => None,
    }
}

pub fn opacity_product(a: u8, b: u8) -> u8 {
    blendref::mul_un8(a, b)
}

/// Blend the (link-resolved) cel at (f, l) onto `canvas` using the layer's blend mode.
pub fn blend_cel(sp: &Sprite, canvas: &mut Img, f: u16, l: u16) {
    let cel = match sp.resolve(f, l) {
        Some(c) => c,
        None => return,
    };
    let layer = &sp.layers[l as usize];
    let (w, h, px) = match cel_rect(sp, l as usize, cel) {
        Some(r) => r,
        None => return,
    };
    let op = opacity_product(layer.opacity, cel.opacity);
    let mode = layer.blend as u32;
    for y in 0..h as i64 {
        let cy = cel.y as i64 + y;
        if cy < 0 || cy >= canvas.h as i64 {
            continue;
        }
        for x in 0..w as i64 {
            let cx = cel.x as i64 + x;
            if cx < 0 || cx >= canvas.w as i64 {
                continue;
            }
            let src = px[(y * w as i64 + x) as usize];
            let back = canvas.get(cx as u32, cy as u32);
            canvas.put(cx as u32, cy as u32, blendref::blend(mode, back, src, op));
        }
    }
}

pub fn render_frame(sp: &Sprite, f: u16) -> Img {
    let mut canvas = Img::new(sp.width as u32, sp.height as u32);
    let vis = sp.visible();
    for l in 0..sp.layers.len() {
        if l > u16::MAX as usize {
            // a cel chunk names its layer in 16 bits: layers from 65536 on never have cels
            break;
        }
        if !vis[l] {
            continue;
        }
        blend_cel(sp, &mut canvas, f, l as u16);
    }
    canvas
}

/// C06: canvas-sized transparent image with the cel's pixels placed at its
/// offset, alpha scaled by the rounded opacity product. Written without the
/// blend oracle on purpose (pure statement of the property).
pub fn render_cel(sp: &Sprite, f: u16, l: u16) -> Img {
    let mut canvas = Img::new(sp.width as u32, sp.height as u32);
    let cel = match sp.resolve(f, l) {
        Some(c) => c,
        None => return canvas,
    };
    let layer = &sp.layers[l as usize];
    let (w, h, px) = match cel_rect(sp, l as usize, cel) {
        Some(r) => r,
        None => return canvas,
    };
    let op = opacity_product(layer.opacity, cel.opacity);
    for y in 0..h as i64 {
        let cy = cel.y as i64 + y;
        if cy < 0 || cy >= canvas.h as i64 {
            continue;
        }
        for x in 0..w as i64 {
            let cx = cel.x as i64 + x;
            if cx < 0 || cx >= canvas.w as i64 {
                continue;
            }
            let s = px[(y * w as i64 + x) as usize];
            canvas.put(cx as u32, cy as u32, [s[0], s[1], s[2], opacity_product(s[3], op)]);
        }
    }
    canvas
}

pub fn tile_image(sp: &Sprite, ts: &TilesetM, i: u32) -> Img {
    let (tw, th) = (ts.tw as u32, ts.th as u32);
    let bpp = sp.fmt.bpp();
    let n = (tw * th) as usize;
    let base = i as usize * n;
    // convert only this tile's bytes
    let px = to_rgba(sp, &ts.pixels[base * bpp..(base + n) * bpp], false);
    let mut img = Img::new(tw, th);
    img.loose = false;
    for k in 0..n {
        img.px[k * 4..k * 4 + 4].copy_from_slice(&px[k]);
    }
    img
}

pub fn tileset_image(sp: &Sprite, ts: &TilesetM) -> Img {
    let px = to_rgba(sp, &ts.pixels, false);
    let mut img = Img::new(ts.tw as u32, ts.th as u32 * ts.count);
    img.loose = false;
    for (k, p) in px.iter().enumerate() {
        img.px[k * 4..k * 4 + 4].copy_from_slice(p);
    }
    img
}
