// Compiles the independent C++ blend oracle into a static library.
// Skipped under Miri (Miri cannot cross FFI; Miri workloads never call the oracle).
use std::env;
use std::path::PathBuf;
use std::process::Command;

fn main() {
    println!("cargo:rerun-if-changed=oracle/aseprite_blend.cc");
    println!("cargo:rerun-if-changed=build.rs");
    println!("cargo:rustc-check-cfg=cfg(no_oracle)");
    if env::var("CARGO_CFG_MIRI").is_ok() || env::var("ASEMON_NO_ORACLE").is_ok() {
        println!("cargo:rustc-cfg=no_oracle");
        return;
    }
    let out = PathBuf::from(env::var("OUT_DIR").unwrap());
    let obj = out.join("aseprite_blend.o");
    let lib = out.join("libaseblend.a");
    let cxx = ["clang++", "clang++-14", "g++"]
        .iter()
        .find(|c| Command::new(c).arg("--version").output().is_ok())
        .expect("no C++ compiler found");
    let st = Command::new(cxx)
        .args(["-O2", "-ffp-contract=off", "-fno-exceptions", "-fno-rtti", "-fPIC", "-c"])
        .arg("oracle/aseprite_blend.cc")
        .arg("-o")
        .arg(&obj)
        .status()
        .expect("spawn c++");
    assert!(st.success(), "oracle compile failed");
    let _ = std::fs::remove_file(&lib);
    let ar = ["ar", "llvm-ar", "llvm-ar-14"]
        .iter()
        .find(|c| Command::new(c).arg("--version").output().is_ok())
        .expect("no ar found");
    let st = Command::new(ar).arg("rcs").arg(&lib).arg(&obj).status().expect("spawn ar");
    assert!(st.success(), "ar failed");
    println!("cargo:rustc-link-search=native={}", out.display());
    println!("cargo:rustc-link-lib=static=aseblend");
}
