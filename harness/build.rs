fn main(){}
