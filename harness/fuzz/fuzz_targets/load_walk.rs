#![no_main]
// C05 under libFuzzer + ASan: whatever loads is walked with in-range arguments.
use libfuzzer_sys::fuzz_target;
fuzz_target!(|data: &[u8]| {
    if let Ok(ase) = asefile::AsepriteFile::read(data) {
        // keep the harness itself bounded: skip absurd canvases (a 65535x65535 image is legitimate but 17 GB)
        if (ase.width() as u64) * (ase.height() as u64) <= 1 << 20 {
            let st = asemon::walk::walk(&ase, data.len() as u64, 120);
            if let Some(e) = st.dim_error {
                panic!("documented dimension violated: {}", e);
            }
        }
    }
});
