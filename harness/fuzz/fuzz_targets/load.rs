#![no_main]
// C04 under libFuzzer + ASan: any panic / abort / sanitizer report is a crash.
use libfuzzer_sys::fuzz_target;
fuzz_target!(|data: &[u8]| {
    let _ = asefile::AsepriteFile::read(data);
});
